#!/bin/sh
# Offline set-up: nothing to build ahead of time (every check stages and compiles /repo's
# current working tree itself).  Verifies the tools are present.
set -e
for t in cbmc goto-cc goto-instrument kissat gcc python3; do command -v $t >/dev/null || { echo "missing tool $t"; exit 1; }; done
chmod +x /verif/vcheck /verif/tools/*.sh /verif/tools/*.py 2>/dev/null || true
mkdir -p /verif/evidence /verif/replay/out
# differential self-test of the trusted specification helpers (reference address parser,
# printf model, strtol/strtoul model) against glibc
T=$(mktemp -d)
sed 's/^int vsnprintf/int model_vsnprintf/; s/^int snprintf/int model_snprintf/; s/r = vsnprintf(/r = model_vsnprintf(/' /verif/stubs/printf_model.c > $T/pm.c
sed 's/^long strtol/long model_strtol/; s/^unsigned long strtoul/unsigned long model_strtoul/' /verif/stubs/strto_model.c > $T/st.c
gcc -O1 -w -I/repo -I/verif -I/verif/include -DVERIF_NATIVE /verif/tools/spec_selftest.c $T/pm.c $T/st.c -o $T/selftest && $T/selftest
rc=$?; rm -rf $T; [ $rc = 0 ] || exit 1
echo "setup ok: $(cbmc --version)"
