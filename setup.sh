#!/bin/sh
# Offline set-up: nothing to build ahead of time (every check stages and compiles /repo's
# current working tree itself).  Verifies the tools are present.
set -e
for t in cbmc goto-cc goto-instrument kissat gcc python3; do command -v $t >/dev/null || { echo "missing tool $t"; exit 1; }; done
chmod +x /verif/vcheck /verif/tools/*.sh /verif/tools/*.py 2>/dev/null || true
mkdir -p /verif/evidence /verif/replay/out
echo "setup ok: $(cbmc --version)"
