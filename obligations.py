"""obligations.py - registry: which real function is proved against which contract, with
which callee contracts assumed, which loop contracts injected and which back end.

A *job* is one goto-cc/goto-instrument/cbmc run; each CBMC property in it is one obligation.
"""
import re

TRUSTED_BASE = [
    "A1 CBMC 6.11 / goto-instrument DFCC and the SAT/SMT back ends (minisat, kissat, cvc5)",
    "A2 machine model as configured by goto-cc: LP64, little-endian x86-64, bit-precise arithmetic (no mathematical-integer idealisation)",
    "A3 -D__NO_CTYPE: isspace/isdigit/tolower are CBMC's C-locale models (the daemon never calls setlocale)",
]
ASSUMPTIONS = [
    "A4 malloc/calloc do not fail in functional postconditions (the code exits through LOG_FATAL otherwise); object sizes <= CBMC max_malloc_size",
]

# per property: level claimed in MANIFEST, extra trusted items, explanation
PROPS = {}
JOBS = []          # static jobs
GENERATORS = []    # callables (tier, seed) -> [jobs]
LOOPS = {}         # key -> injection row


def J(**kw):
    kw.setdefault("tiers", ("quick", "thorough"))
    JOBS.append(kw)
    return kw


def jobs_for(prop, tier, seed):
    out = [j for j in JOBS if j["prop"] == prop and tier in j["tiers"]]
    for g in GENERATORS:
        out += [j for j in g(tier, seed) if j["prop"] == prop]
    return out


def all_jobs():
    out = list(JOBS)
    for g in GENERATORS:
        for t in ("quick", "thorough"):
            for j in g(t, 0):
                if not any(x["id"] == j["id"] for x in out):
                    out.append(j)
    return out


def job_by_id(i):
    for j in all_jobs():
        if j["id"] == i:
            return j
    return None


def enforced_anywhere():
    return {f for j in all_jobs() for f in j.get("enforce", [])} | {f for j in all_jobs() for f in j.get("functions", [])}


def loops_for(jobs):
    keys = []
    for j in jobs:
        for k in j.get("inject", []):
            if k not in keys:
                keys.append(k)
    return [LOOPS[k] for k in keys]


NET = "stubs/netorder.c"
NATIVE_MISC = dict(stubs=["stubs/native_env.c"], extra_srcs=["src/common.c"])

# =========================================================================== C13
PROPS["C13"] = dict(
    level="proof",
    explanation="irc_check_mask is enforced against its contract for all (address, mask, bits) triples; "
                "parser obligations are listed per job with their class",
)

J(id="C13.check_mask", prop="C13", cls="width-complete", bound="loops bounded by the 8 address groups / 128 bits",
  srcs=["modules/iauth_misc.c"], harness="harness/h_misc.c", entry="h_check_mask", stubs=[NET],
  enforce=["irc_check_mask"], checks=["ptr", "shift", "ovf"],
  cbmc=["--unwind", "130", "--unwinding-assertions"],
  expect=[r"irc_check_mask\.postcondition", r"irc_check_mask\.undefined-shift"],
  functions=["irc_check_mask"], replay=NATIVE_MISC, cost=1)
