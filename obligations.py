"""obligations.py - registry: which real function is proved against which contract, with
which callee contracts assumed, which loop contracts injected and which back end.

A *job* is one goto-cc/goto-instrument/cbmc run; each CBMC property in it is one obligation.
"""
import re, os

TRUSTED_BASE = [
    "A1 CBMC 6.11 / goto-instrument DFCC and the SAT/SMT back ends (minisat, kissat, cvc5)",
    "A2 machine model as configured by goto-cc: LP64, little-endian x86-64, bit-precise arithmetic (no mathematical-integer idealisation)",
    "A3 -D__NO_CTYPE: isspace/isdigit/tolower are CBMC's C-locale models (the daemon never calls setlocale)",
]
ASSUMPTIONS = [
    "A4 malloc/calloc do not fail in functional postconditions (the code exits through LOG_FATAL otherwise); object sizes <= CBMC max_malloc_size",
]

# per property: level claimed in MANIFEST, extra trusted items, explanation
PROPS = {}
JOBS = []          # static jobs
GENERATORS = []    # callables (tier, seed) -> [jobs]
LOOPS = {}         # key -> injection row


def J(**kw):
    kw.setdefault("tiers", ("quick", "thorough"))
    JOBS.append(kw)
    return kw


def jobs_for(prop, tier, seed):
    out = [j for j in JOBS if j["prop"] == prop and tier in j["tiers"]]
    for g in GENERATORS:
        out += [j for j in g(tier, seed) if j["prop"] == prop]
    return out


def all_jobs():
    out = list(JOBS)
    for g in GENERATORS:
        for t in ("quick", "thorough"):
            for j in g(t, 0):
                if not any(x["id"] == j["id"] for x in out):
                    out.append(j)
    return out


def job_by_id(i):
    for j in all_jobs():
        if j["id"] == i:
            return j
    return None


def enforced_anywhere():
    return {f for j in all_jobs() for f in j.get("enforce", [])} | {f for j in all_jobs() for f in j.get("functions", [])}


def loops_for(jobs):
    keys = []
    for j in jobs:
        for k in j.get("inject", []):
            if k not in keys:
                keys.append(k)
    return [LOOPS[k] for k in keys]


NET = "stubs/netorder.c"
NATIVE_MISC = dict(stubs=["stubs/native_env.c"])

# =========================================================================== C13
PROPS["C13"] = dict(
    level="proof",
    explanation="irc_check_mask is enforced against its contract for all (address, mask, bits) triples; "
                "parser obligations are listed per job with their class",
)

J(id="C13.check_mask", prop="C13", cls="width-complete", bound="loops bounded by the 8 address groups / 128 bits",
  srcs=["src/common.c"], harness="harness/h_misc.c", entry="h_check_mask", stubs=[NET],
  enforce=["irc_check_mask"], checks=["ptr", "shift", "ovf"],
  cbmc=["--unwind", "130", "--unwinding-assertions"],
  expect=[r"irc_check_mask\.postcondition", r"irc_check_mask\.undefined-shift"],
  functions=["irc_check_mask"], replay=NATIVE_MISC, cost=1)

# =========================================================================== C19
PROPS["C19"] = dict(
    level="model_checking",
    explanation="comparators: contracts enforced over the whole key domain (proof class); tree operations: inductive "
                "step 'well-formed set + one real operation => well-formed set with the abstract result' from every "
                "well-formed tree of up to N nodes (bounded class, N in the job id)",
)
NATIVE_SET = dict(stubs=["stubs/native_env.c"], extra_srcs=["src/common.c"])
for fn, chk in (("int", ["ptr", "ovf"]), ("voidp", ["ptr"]), ("ptr", ["ptr"])):
    J(id="C19.compare_" + fn, prop="C19", cls="proof", srcs=["src/set.c"], harness="harness/h_set_cmp.c",
      entry="h_compare_" + fn, enforce=["set_compare_" + fn], checks=chk,
      expect=[r"set_compare_%s\.postcondition" % fn], functions=["set_compare_" + fn], replay=NATIVE_SET)
J(id="C19.compare_charp.len8", prop="C19", cls="bounded", bound="strings of at most 8 bytes (strcasecmp is CBMC's libc model, S2)",
  srcs=["src/set.c"], harness="harness/h_set_cmp.c", entry="h_compare_charp", checks=["ptr"],
  cbmc=["--unwind", "10", "--unwinding-assertions"], functions=["set_compare_charp"], replay=NATIVE_SET,
  assumptions=["S2 strcasecmp is CBMC's built-in C-locale model"])


def _set_jobs(tier, seed):
    out = []
    ns = (3, 4) if tier == "quick" else (4, 5)
    for n in ns:
        for op in ("insert", "remove", "find", "lower", "clear"):
            out.append(dict(
                id="C19.set_%s.N%d" % (op, n), prop="C19", cls="bounded",
                bound="every well-formed set of at most %d elements (all BST shapes, full int key range), one operation" % n,
                srcs=["src/set.c"], harness="harness/h_set_ops.c", entry="h_set_" + op, defines=["SETN=%d" % n],
                checks=["ptr", "ovf"], solver=os.environ.get("SETSOLVER", "minisat"),
                cbmc=["--unwind", str(n + 3), "--unwinding-assertions", "--no-malloc-may-fail"],
                functions=["set_" + op, "set_splay", "set_first", "set_dispose_node"], replay=NATIVE_SET,
                timeout=3000, mem=14, cost=10 ** (n - 2)))
    return out


GENERATORS.append(_set_jobs)


J(id="C13.pton_ip4.quad.len16", prop="C13", cls="bounded", bound="every string of at most 16 bytes",
  srcs=["src/common.c"], harness="harness/h_misc.c", entry="h_pton_ip4_quad", stubs=[NET, "stubs/printf_model.c"],
  enforce=["irc_pton_ip4"], checks=["ptr", "ovf", "shift"],
  cbmc=["--unwind", "19", "--unwinding-assertions"], expect=[r"irc_pton_ip4\.assigns"],
  functions=["irc_pton_ip4"], replay=dict(stubs=["stubs/native_env.c"]), cost=3)

# =========================================================================== C12
PROPS["C12"] = dict(
    level="proof",
    explanation="irc_ntop o irc_pton round trip, reference-parser agreement and idempotence proved per zero-group "
                "pattern shard with all non-zero groups symbolic (width-complete: every loop is bounded by the 8 groups / "
                "40 text bytes and unwound with unwinding assertions)",
    trusted=["S1 printf model for the dotted-quad branch (stubs/printf_model.c, differential-tested against libc at setup)",
             "reference parser spec_parse_addr stands in for inet_pton (differential-tested against glibc inet_pton at setup)"],
)
MISC_SRCS = ["src/common.c"]
MISC_STUBS = [NET, "stubs/printf_model.c"]
NATIVE_MISC2 = dict(stubs=["stubs/native_env.c"])
MISC_UNWIND = [
    ("irc_pton", r"while \(ii < 8\) switch", 42), ("irc_pton", r"for \(; isspace", 3),
    ("irc_pton", r"for \(part = 0; isdigit", 5), ("irc_pton", r"while \(input\[\+\+pos\] == '\*'\)", 3),
    ("irc_pton", r"for \(jj = 0;", 9),
    ("irc_pton_ip4", r"while \(1\) switch", 18), ("irc_pton_ip4", r"while \(input\[\+\+pos\] == '\*'\)", 3),
    ("irc_pton_ip4", r"for \(bits = 0; isdigit", 4), ("irc_pton_ip4", r"goto out", 3),
    ("irc_ntop", r"for \(max_start", 9), ("irc_ntop", r"for \(pos = 0, ii = 0", 9), ("irc_ntop", r"APPEND\(", 2),
    ("strchr", r"", 41), ("ctype_init", r"token_chars\[ii\]", 32), ("ctype_init", r"hex_digits\[ii\]", 18),
    ("vsnprintf", r"while \(\*fmt\)", 14), ("vsnprintf", r"while \(\*s\)", 41), ("vp_unum", r"for \(i = 0; i < 20", 21), ("vp_unum", r"while \(v >= p10", 10), ("vp_unum", r"for \(i = 15", 17),
    ("h_ntop_roundtrip", r".", 41), ("h_pton_cidr", r"", 10), ("spec_parse_addr", r"for \(;;\)", 42), ("spec_parse_addr", r"k < maxlen", 41),
    ("spec_parse_addr", r"i <= maxlen", 42),
]


def _c12_job(zp, digits=None, v4=False, solver="kissat", core=False):
    is4 = v4 or (zp & 0x7f) == 0x3f
    d = ["ZP=0x%02x" % zp] + (["DIGITS=%d" % digits] if digits else []) + (["V4MAPPED"] if v4 else []) + (["C12_CORE_ONLY"] if core else [])
    j = dict(
        id="C12.roundtrip.zp%02x%s%s%s" % (zp, "m" if v4 else "", (".d%d" % digits) if digits else ".full", ".core" if core else ""), prop="C12",
        cls="width-complete", bound="8 groups / 40 text bytes (code constants)",
        srcs=MISC_SRCS, stubs=MISC_STUBS, harness="harness/h_misc.c", entry="h_ntop_roundtrip", defines=d,
        checks=["ptr", "shift"], solver=solver, unwind_rules=MISC_UNWIND, unwind_rules_optional=True,
        cbmc=["--unwind", "9", "--unwinding-assertions", "--object-bits", "12"], functions=["irc_ntop", "irc_pton"],
        replay=NATIVE_MISC2, timeout=3000, mem=14, cost=(100 if not digits else 1) * (5 if is4 else 1))
    if is4:
        j["remove_bodies"] = ["irc_pton_ip4"]
        j["late_stubs"] = ["stubs/pton_ip4_contract.c"]
        j["assumptions"] = ["in the IPv4 shards irc_pton_ip4 is replaced by its executable contract for plain canonical dotted quads "
                            "(stubs/pton_ip4_contract.c); the real function is proved against it in C13.pton_ip4.quad.len16"]
    else:
        j["havoc_bodies"] = ["irc_pton_ip4"]
        j["assumptions"] = ["in the IPv6 shards the static dotted-quad parser irc_pton_ip4 is abstracted by its frame-only contract "
                            "(havoc of *output/*pbits, any return value; spec/misc.contracts.h) - it is only called on paths where the "
                            "printed text contains a '.', which the solver shows infeasible; the frame is enforced in C13.pton_ip4.*"]
    return j


def _c12_shards():
    out = []
    for zp in range(256):
        out.append((zp, False))
        if (zp & 0x7f) == 0x1f:
            out.append((zp, True))
    return out


def _c12_jobs(tier, seed):
    sh = _c12_shards()
    if tier == "quick":
        # one wave of 16 boundary shards (IPv4 forms and their IPv6 look-alikes, no / one / all zero
        # groups, leading / trailing / split runs), digit-length class per shard rotated by VERIF_SEED;
        # core clauses only (fits, no leading ':', own parser reads the same address back)
        fixed = [(0x00, False), (0xff, False), (0x01, False), (0x80, False), (0x7f, False), (0xfe, False),
                 (0x1f, False), (0x1f, True), (0x3f, False), (0xbf, False), (0x0f, False), (0x8f, False),
                 (0x2a, False), (0x41, False), (0x66, False), (0x18, False)]
        out = []
        for zp, v4 in fixed:
            lookalike = (zp & 0x0f) == 0x0f
            out.append(_c12_job(zp, 4 if lookalike else 1 + (zp + seed) % 4, v4, solver="minisat", core=True))
        return out
    return [_c12_job(zp, None, v4, solver=os.environ.get("C12SOLVER", "kissat")) for zp, v4 in sh]


GENERATORS.append(_c12_jobs)


def _c13_pton_jobs(tier, seed):
    """irc_pton is anchored in C13 as well: plain-address shards (same harness as C12), CIDR and wildcard texts"""
    out = []
    plain = [(0x18, False), (0x66, False), (0x01, False), (0x80, False)] if tier == "quick" else [x for x in _c12_shards() if not x[1]][::8]
    for zp, v4 in plain:
        j = _c12_job(zp, (1 + (zp + seed) % 4) if tier == "quick" else None, v4, solver=("minisat" if tier == "quick" else "kissat"), core=True)
        j["id"] = j["id"].replace("C12.roundtrip", "C13.pton_plain"); j["prop"] = "C13"
        out.append(j)
    for zp in ((0x18, 0xc0) if tier == "quick" else (0x18, 0xc0, 0x7e, 0x81, 0xff)):      # (zp00: 8 full groups + "/n" exceeds the strchr bound of the shard jobs -> undecided; left out)
        j = _c12_job(zp, 4 if tier == "quick" else None, False, solver=("minisat" if tier == "quick" else "kissat"), core=True)
        j["id"] = "C13.pton_cidr.zp%02x%s" % (zp, ".d4" if tier == "quick" else ".full"); j["prop"] = "C13"; j["entry"] = "h_pton_cidr"
        out.append(j)
    for wg in ((1, 3) if tier == "quick" else (1, 2, 3)):      # g7 did not finish within 16 minutes (minisat); g4-g6 not measured
        j = _c12_job(0, None, False, solver="minisat", core=True)
        j["id"] = "C13.pton_wild.g%d" % wg; j["prop"] = "C13"; j["entry"] = "h_pton_wild"; j["defines"] = ["WG=%d" % wg]
        j["unwind_rules"] = MISC_UNWIND + [("h_pton_wild", r"", 9)]
        j["cost"] = 20
        out.append(j)
    return out


GENERATORS.append(_c13_pton_jobs)


def _c09_addr_jobs(tier, seed):
    """C09: 'an address text that denotes exactly the address the server announced' and that is a single word of
    the line protocol (never starting with ':'): the printer shards with a leading zero run, under C09"""
    out = []
    for zp in (0xfe, 0x7f, 0xff, 0x03):
        j = _c12_job(zp, 1 + (zp + seed) % 4, False, solver="minisat", core=True)
        j["id"] = j["id"].replace("C12.roundtrip", "C09.addr_text"); j["prop"] = "C09"
        out.append(j)
    return out


GENERATORS.append(_c09_addr_jobs)


# =========================================================================== IAuth core / xquery (C01-C06, C10)
IAUTH_SRCS = ["src/set.c", "src/bitset.c", "src/common.c", "modules/iauth_misc.c", "src/accumulators.c"]
IAUTH_STUBS = ["stubs/env_iauth.c", NET, "stubs/printf_model.c", "stubs/strto_model.c", "stubs/fnmatch_nondet.c"]
TRAMP = ["stubs/tramp_iauth.c"]
IAUTH_UNWIND = ["--unwind", "4", "--unwinding-assertions", "--object-bits", "10", "--no-malloc-may-fail"]


IAUTH_RULES = [
    ("vp_unum", r"for \(i = 0; i < 20", 21), ("vp_unum", r"while \(v >= p10", 10), ("vp_unum", r"for \(i = 15", 17),
    ("ctype_init", r"token_chars\[ii\]", 32), ("ctype_init", r"hex_digits\[ii\]", 18),
    ("irc_pton", r"while \(ii < 8\) switch", 42), ("irc_pton_ip4", r"while \(1\) switch", 18),
    ("irc_ntop", r"for \(max_start", 9), ("irc_ntop", r"for \(pos = 0, ii = 0", 9), ("irc_ntop", r"APPEND\(", 2),
    ("vsnprintf", r"while \(\*fmt\)", 70), ("vsnprintf", r"while \(\*s\)", 81),
    ("iauth_send", r"COLLECT\(", 70), ("iauth_send", r"for \(k = 0; k < 4", 5), ("iauth_x_query", r"COLLECT\(", 40), ("st_scan", r"while \(\*p == ' '", 24), ("st_scan", r"while \(st_digit", 24),
]


def IJ(id, prop, entry, remove, harness="harness/h_iauth_core.c", extra_props=(), **kw):
    """job on the IAuth unit: real function under proof, callees in `remove` replaced by their
    executable contracts (spec/iauth_model.h)"""
    extra = kw.pop("cbmc", [])
    base = list(IAUTH_UNWIND)
    for opt in ("--unwind", "--object-bits"):      # a job-specific value replaces the generic one
        if opt in extra:
            i = base.index(opt); del base[i:i + 2]
    kw["cbmc"] = extra
    d = dict(id=id, prop=prop, cls="proof", srcs=IAUTH_SRCS, stubs=IAUTH_STUBS, harness=harness, entry=entry,
             remove_bodies=list(remove), late_stubs=TRAMP, replaced_models=list(remove),
             checks=["ptr", "ovf", "shift"], cbmc=base + kw.pop("cbmc", []), timeout=900, cost=2,
             unwind_rules=kw.pop("unwind_rules", []) + IAUTH_RULES, unwind_rules_optional=True)
    d.update(kw)
    d["replace_doc"] = list(remove)
    J(**d)
    for p2 in extra_props:          # the same obligation group also supports another property
        d2 = dict(d); d2["id"] = id.replace(prop + ".", p2 + ".", 1); d2["prop"] = p2
        J(**d2)


PROPS["C01"] = dict(level="proof", explanation="per-function contracts over the ghost log; histories by induction over INV (DESIGN section 4)")
PROPS["C02"] = dict(level="model_checking", explanation="the single acceptance gate is proved equal to the property's condition; hold counters by INV preservation")
PROPS["C03"] = dict(level="model_checking", explanation="every state-changing step re-establishes 'nothing decidable is left waiting'")

GATE_CALLEES = ["iauth_accept", "iauth_soft_done"]
IJ("C02.check_request", "C02", "h_check_request", GATE_CALLEES, functions=["iauth_check_request"], extra_props=("C01", "C03"))
IJ("C01.accept", "C01", "h_accept", ["iauth_send", "notify_pre_registered", "parse_registered"], functions=["iauth_accept"], extra_props=("C05",),
   cbmc=[])
IJ("C01.kill", "C01", "h_kill", ["iauth_send", "parse_registered"], functions=["iauth_kill"], cbmc=[], extra_props=("C05",))
IJ("C01.quietly_kill", "C01", "h_kill", ["iauth_send", "parse_registered"], functions=["iauth_quietly_kill"], defines=["QUIET"],
   cbmc=[])
IJ("C01.soft_done", "C01", "h_soft_done", ["iauth_send"], functions=["iauth_soft_done"], cbmc=[])
IJ("C03.timeout", "C03", "h_timeout", ["iauth_check_request"], functions=["iauth_timeout"], extra_props=("C02",))

HANDLER_CALLEES = ["iauth_check_request", "iauth_send"]
for h, fn in (("hostname", "parse_hostname"), ("no_hostname", "parse_no_hostname"), ("nick", "parse_nick"), ("ident", "parse_ident"),
              ("user_info", "parse_user_info"), ("password", "parse_password"), ("hurry_up", "parse_hurry_up")):
    IJ("C03.parse_" + h, "C03", "h_parse_" + h, HANDLER_CALLEES, functions=[fn], extra_props=("C01", "C06", "C07"),
       cbmc=["--unwindset", "copy_ok.0:81,strncpy.0:81"])

PROPS["C07"] = dict(level="other", explanation="write-frame and addressing part of the hyperproperty only: every step on one client leaves every other client's request, its per-module record and the other services' records untouched and emits nothing naming another client; the read-independence half (emitted text does not depend on shared counters) has no contract form in CBMC and is argued in DESIGN 5 C07")
PROPS["C10"] = dict(level="proof", explanation="table bookkeeping: real handlers over the real set.c with the real disposal callback; timers by contract (S3)")
TABLE_UNW = ["--unwind", "4", "--unwindset", "model_set_clear:2,sm_dispose:2,iauth_req_cleanup:2,set_clear:2,strchr.0:12"]
SETM = ["set_first", "set_find", "set_insert", "set_remove", "set_clear"]
SET_ASSUME = ["set.c is used through its contract (sorted map with disposal, spec/set_model.h); discharged for the real set.c in the C19 jobs, bounded by N elements"]
IJ("C10.parse_registered", "C10", "h_parse_registered", ["iauth_send"] + SETM, assumptions=SET_ASSUME, functions=["parse_registered", "iauth_req_cleanup"], extra_props=("C01", "C07"), cbmc=TABLE_UNW, defines=["SET_MODEL_MAX=3"])
IJ("C10.parse_disconnect", "C10", "h_parse_registered", ["iauth_send"] + SETM, assumptions=SET_ASSUME, functions=["parse_disconnect", "iauth_req_cleanup"], defines=["DISCONNECT", "SET_MODEL_MAX=3"],
   extra_props=("C01",), cbmc=TABLE_UNW)
IJ("C10.collect_stats", "C10", "h_collect_stats", ["iauth_send"] + SETM, assumptions=SET_ASSUME, functions=["iauth_collect_stats"], cbmc=TABLE_UNW, defines=["SET_MODEL_MAX=3"])
IJ("C04.serial_fresh", "C04", "h_serial_fresh", ["iauth_send"] + SETM, assumptions=SET_ASSUME, functions=["parse_new_client"], cbmc=TABLE_UNW, defines=["SET_MODEL_MAX=3"], timeout=1500)
IJ("C10.parse_new_client", "C10", "h_parse_new_client", ["iauth_send"] + SETM, assumptions=SET_ASSUME, functions=["parse_new_client", "iauth_req_cleanup"],
   extra_props=("C01", "C04", "C07"), cbmc=TABLE_UNW, timeout=1500, defines=["SET_MODEL_MAX=3"])

XQ_CALLEES = ["iauth_validate_request", "iauth_routing", "iauth_kill", "iauth_challenge", "iauth_user_mode", "iauth_check_request",
              "iauth_x_query", "iauth_send"] + SETM
XQ_UNW = ["--unwind", "5", "--unwindset", "strlen.0:82,strcmp.0:5,strncmp.0:8,memcmp.0:70,account_is.0:66,iauth_xquery_set_account.0:66,iauth_xquery_set_account.1:67,memset.0:82,strchr.0:82,strlcpy.0:82,strlcpy.1:82,strcpy.0:82,strncpy.0:82,memcpy.0:82"]
PROPS["C04"] = dict(level="model_checking", explanation="reply routing: validate/routing round trip and the empty frame of non-awaited replies")
PROPS["C05"] = dict(level="model_checking", explanation="verdict content: per reply kind postconditions of the reply handler and of iauth_accept")
IJ("C03.xq_x_reply", "C03", "h_xq_x_reply", XQ_CALLEES, harness="harness/h_iauth_xq.c", functions=["iauth_xquery_x_reply", "iauth_xquery_x_unlinked", "iauth_xquery_set_account", "iauth_xquery_unref"],
   extra_props=("C02", "C04", "C05", "C07"), cbmc=XQ_UNW, assumptions=SET_ASSUME, bound="service table of 3 slots, names of <= 2 bytes, reply text <= 39 bytes", cls="bounded", timeout=1800, cost=20)

IJ("C05.xq_x_reply.reply71", "C05", "h_xq_x_reply", XQ_CALLEES, harness="harness/h_iauth_xq.c", functions=["iauth_xquery_x_reply", "iauth_xquery_set_account"],
   cbmc=["--unwind", "5", "--unwindset", "strlen.0:82,strcmp.0:5,strncmp.0:8,memcmp.0:70,account_is.0:66,iauth_xquery_set_account.0:66,iauth_xquery_set_account.1:67,memset.0:82,strchr.0:82,strlcpy.0:82,strlcpy.1:82,strcpy.0:82,strncpy.0:82,memcpy.0:82"],
   assumptions=SET_ASSUME, bound="service table of 3 slots, reply text <= 71 bytes (account stamps up to the ACCOUNTLEN limit)", cls="bounded", timeout=7200, cost=40, defines=["REPLY_MAX=72"])
PROPS["C06"] = dict(level="model_checking", explanation="query builder and password shape check by per-function postconditions over the ghost query log; bounded copies in the core handlers")
for _t0 in range(4):
    for _t1 in range(4):
        IJ("C06.xq_check.t%d%d" % (_t0, _t1), "C06", "h_xq_check", XQ_CALLEES, harness="harness/h_iauth_xq.c", functions=["iauth_xquery_check", "iauth_xquery_user_info"],
           extra_props=("C02", "C03") + (("C17",) if _t0 == _t1 else ()),   # C17: a service the section dropped (configured == 0) is never queried again
           cbmc=["--unwind", "4", "--unwindset", "strcmp.0:5,strncmp.0:8,model_x_query.0:13,model_x_query.1:12,spec_username.0:13,spec_username.1:11,spec_username.2:11,spec_username.3:11,strncpy.0:13"],
           unwind_rules=[("iauth_xquery_check", r"for \(ii = 0; ii < iauth_xquery_services.used", 3), ("h_xq_check", r"for \(k = 0; k < 8", 9), ("h_xq_check", r"for \(i = 0; i < NSRV", 3)],
           assumptions=SET_ASSUME, bound="service table of 2 slots; one job per pair of service protocols (%d, %d)" % (_t0, _t1), cls="bounded", timeout=2400, cost=20,
           defines=["NSRV=2", "SRV_STATIC", "SRV_T0=%d" % _t0, "SRV_T1=%d" % _t1], mem=16)
PROPS["C09"] = dict(level="model_checking", explanation="single formatter iauth_send proved against the line format with the printf model; address text via C12; log channel separation in C18/C09.log")
IO_UNW = ["--unwind", "14", "--unwindset", "put_str.0:41,fputs.0:130,iauth_send.0:5,memset.0:600"]
C09_RULES = [("h_send", r"i < 128", 129), ("h_send", r"i < (40|IRC_NTOP_MAX)", 42), ("h_send", r"i < (11|12|6);", 13), ("h_send", r"f\[i\]", 14), ("h_send", r"i = (3|ADDR_MAX)", 42)]
for _k in range(22):
    if _k == 12:
        continue
    IJ("C09.send.fmt%02d" % _k, "C09", "h_send", SETM, harness="harness/h_iauth_io.c", stubs=IAUTH_STUBS + ["stubs/stdout_model.c"], functions=["iauth_send"],
       cbmc=IO_UNW, unwind_rules=C09_RULES, cls="bounded",
       bound="string arguments of <= 11 bytes; one concrete <id> <address> <port> prefix with the client-directed formats (the prefix itself: jobs C09.send.prefix.*)",
       defines=["KIND=%d" % _k, "ADDR_MAX=8"] + (["CONCRETE_PREFIX"] if _k < 12 else []), timeout=2400, cost=4)
for _sp, _nm, _lens in ((1, "id", range(1, 7)), (2, "port", range(1, 6)), (3, "addr", range(1, 9))):
    for _ln in _lens:
        IJ("C09.send.prefix.%s%d" % (_nm, _ln), "C09", "h_send", SETM, harness="harness/h_iauth_io.c", stubs=IAUTH_STUBS + ["stubs/stdout_model.c"], functions=["iauth_send"],
           cbmc=IO_UNW, unwind_rules=C09_RULES, cls="bounded", tiers=(("thorough",) if (_nm == "id" and _ln > 5) else ("quick", "thorough")),
           bound="format d; the %s of the prefix symbolic with printed length %d (ids 0..999999, ports 0..65535, address texts of 1-8 bytes: one job per length), the other two parts concrete" % (_nm, _ln),
           defines=["KIND=12", "ADDR_MAX=8", "SYM_PART=%d" % _sp, "SYM_DIGITS=%d" % _ln], timeout=2400, cost=20)
IJ("C09.send.prefix.all", "C09", "h_send", SETM, harness="harness/h_iauth_io.c", stubs=IAUTH_STUBS + ["stubs/stdout_model.c"], functions=["iauth_send"],
   cbmc=IO_UNW, unwind_rules=C09_RULES, cls="bounded", tiers=(), bound="format d; id, port and address text (<= 8 bytes) symbolic together (does not finish: not part of any tier)",
   defines=["KIND=12", "ADDR_MAX=8"], timeout=7200, cost=60, solver="kissat")
for _p in ("C08", "C09"):
    IJ(_p + ".send_overlong", _p, "h_send_overlong", SETM, harness="harness/h_iauth_io.c", stubs=IAUTH_STUBS + ["stubs/stdout_model.c"], functions=["iauth_send"],
       cbmc=["--unwind", "6", "--unwindset", "fputs.0:1201,memset.0:600"], unwind_rules=[("h_send_overlong", r"", 1202), ("vsnprintf", r"while \(\*s\)", 1102)],
       cls="bounded", bound="one concrete 1100-byte argument (positions concrete)", timeout=1800, cost=6, mem=30)
IJ("C04.routing_roundtrip", "C04", "h_routing_roundtrip", SETM, harness="harness/h_iauth_io.c", stubs=IAUTH_STUBS + ["stubs/stdout_model.c"],
   functions=["iauth_routing", "iauth_validate_request"], cbmc=IO_UNW, assumptions=SET_ASSUME + ["S2 strtol/strtoul are CBMC's library models"], timeout=1800, cost=10)
IJ("C04.validate_any", "C04", "h_validate_any", SETM, harness="harness/h_iauth_io.c", stubs=IAUTH_STUBS + ["stubs/stdout_model.c"],
   functions=["iauth_validate_request"], cbmc=IO_UNW, cls="bounded", bound="tag text of <= 19 bytes", assumptions=SET_ASSUME, timeout=1800, cost=5)

PROPS["C08"] = dict(level="model_checking", explanation="tokenizer + dispatcher of iauth_read for every line up to the stated length; handlers by precondition; chunking/libevent outside (S3)")
PARSERS = ["parse_new_client", "parse_disconnect", "parse_hostname", "parse_no_hostname", "parse_password", "parse_user_info", "parse_ident",
           "parse_nick", "parse_hurry_up", "parse_error", "parse_server_info", "parse_x_reply", "parse_x_unlinked", "parse_info_request"]


def _c08_jobs(tier, seed):
    n = 10 if tier == "quick" else 16
    rules = IAUTH_RULES + [
        ("iauth_read", r"while \(\(line = evbuffer_readln", 3), ("iauth_read", r"for \(argc = 0; argc <", n // 2 + 3),
        ("iauth_read", r"for \(; isspace\(\*sep\)", n + 2), ("iauth_read", r"for \(; \(\*sep != ", n + 2),
        ("evbuffer_readln", r"", n + 3), ("model_dispatch", r"", 17), ("h_read", r"", n + 2)]
    d = dict(id="C08.read.len%d" % n, prop="C08", cls="bounded", bound="every input line of at most %d bytes" % n,
             srcs=IAUTH_SRCS, stubs=IAUTH_STUBS + ["stubs/stdout_model.c"], harness="harness/h_iauth_io.c", entry="h_read",
             remove_bodies=PARSERS + SETM + ["iauth_send", "parse_registered"], late_stubs=TRAMP, checks=["ptr", "ovf", "shift"], defines=["LINE_MAX_V=%d" % n],
             cbmc=["--unwind", "4", "--unwinding-assertions", "--object-bits", "10", "--no-malloc-may-fail"],
             unwind_rules=rules, unwind_rules_optional=True, functions=["iauth_read"],
             assumptions=SET_ASSUME + ["S3 evbuffer_read/evbuffer_readln by contract: a fresh NUL-terminated line without newline, any content"],
             timeout=3000, cost=30, mem=20)
    d2 = dict(d); d2["id"] = "C08.read_two_lines"; d2["entry"] = "h_read_two_lines"; d2["bound"] = "two concrete lines in one read: junk for an unknown id, then a hurry-up for the live id"
    d3 = dict(d2); d3["id"] = "C07.read_two_lines"; d3["prop"] = "C07"
    return [d, d2, d3]


GENERATORS.append(_c08_jobs)

PROPS["C11"] = dict(level="model_checking", explanation="rule criteria conjunction, class/username effects, first-match scan; glob semantics are libc's (uninterpreted); rule compilation order by C19 + conf_object_cmp")
CL_STUBS = [x for x in IAUTH_STUBS if "fnmatch" not in x]
for _cn, _tiers, _unw in ((8, ("quick",), "12"), (70, ("thorough",), "72")):
    for _crit in range(16):
        IJ("C11.rule_check.name%d.crit%x" % (_cn - 1, _crit), "C11", "h_rule_check", ["iauth_xreply_ok", "iauth_trust_username", "iauth_send", "iauth_check_request"] + SETM,
           harness="harness/h_iauth_class.c", stubs=CL_STUBS, functions=["iauth_class_rule_check"], defines=["CN_MAX=%d" % _cn, "CRIT=%d" % _crit], tiers=_tiers,
           cbmc=["--unwind", _unw, "--unwindset", "irc_check_mask.0:9,spec_prefix_equal.0:130,memset.0:200,h_rule_check.0:66,h_rule_check.1:67,h_rule_check.2:67,h_rule_check.3:67,h_rule_check.4:66,h_rule_check.5:66,fnmatch.0:67,strchr.0:67"],
           cls="bounded", bound="class / rule names up to %d bytes; glob results uninterpreted; one job per subset of {account, username, hostname, xreply_ok} criteria" % (_cn - 1),
           assumptions=["fnmatch is libc's: its result is an arbitrary input of the proof (S2)"], timeout=2400, cost=10)
IJ("C11.class_assign", "C11", "h_class_assign", ["iauth_class_rule_check", "iauth_send"] + SETM, harness="harness/h_iauth_class.c", stubs=CL_STUBS,
   functions=["iauth_class_assign", "iauth_class_foreach_rule"], cbmc=["--unwind", "6"], cls="bounded", bound="up to 4 rules", timeout=900, cost=3)

for _nr, _st, _oc in ((2, 1, 2), (2, 0, 0), (1, 1, 3), (0, 0, 1), (2, 0, 4), (1, 0, 2)):
    IJ("C17.class_conf_changed.n%ds%do%d" % (_nr, _st, _oc), "C17", "h_class_conf_changed", ["iauth_send", "iauth_check_request"] + SETM, harness="harness/h_iauth_class.c", stubs=CL_STUBS,
       functions=["iauth_class_conf_changed", "iauth_class_free_rules"], defines=["NRULE=%d" % _nr, "STRAY=%d" % _st, "OLDCASE=%d" % _oc],
       cbmc=["--unwind", "8", "--unwindset", "strcmp.0:16,strcasecmp.0:4,strlen.0:12,memcpy.0:12,memcmp.0:20,memset.0:400,strchr.0:12"], cls="bounded",
       bound="section of %d rule objects%s, every subset of the seven criteria per rule, previous vector case %d; criterion texts fixed" % (_nr, " plus a non-object child" if _st else "", _oc),
       assumptions=SET_ASSUME + ["conf_get_child / conf_parse_boolean (src/config.c) used through contracts stated in the harness"], timeout=1800, cost=6)

# =========================================================================== C20
PROPS["C20"] = dict(level="model_checking", explanation="real module.c executed for every dependency graph over 3 stub modules (one job per graph) and the 4-module diamond under every naming; loader by model (S4), module table by the set contract")


def _c20_phase_jobs(tier, seed):
    out = []
    for m in ((2,) if tier == "quick" else (2, 3)):
        for e, fns in (("h_module_postinit", ["module_load_list", "module_dfs", "module_get"]), ("h_module_unload", ["module_close_all", "module_cleanup", "const_string_vector_remove", "module_get"])):
            out.append(dict(id="C20.%s.M%d" % (e[9:], m), prop="C20", cls="bounded",
                 bound="%d loaded stub modules, every dependency matrix (2^%d graphs incl. cycles and self loops)%s" % (m, m * m, "" if e == "h_module_postinit" else " that is acyclic"),
                 srcs=["src/common.c"], stubs=["stubs/printf_model.c"], harness="harness/h_module.c", entry=e,
                 defines=["MODS=%d" % m], checks=["ptr"], remove_bodies=["xmalloc", "xrealloc", "module_get"], late_stubs=["stubs/tramp_module.c"],
                 cbmc=["--unwind", str(m + 2), "--unwinding-assertions", "--object-bits", "10", "--no-malloc-may-fail",
                       "--unwindset", "dispose:2,module_cleanup:2,strcasecmp.0:4,strlen.0:4,strcpy.0:4,vsnprintf.0:12,vsnprintf.1:6,model_xrealloc.0:9,const_string_vector_remove.0:%d" % (2 * m + 2)],
                 functions=fns, assumptions=["S4 dlsym by model (stub modules logging post-init / destructor events)",
                              "module table through the set contract instantiated for the keys m0..m3 (array of slots), discharged for set.c in C19"],
                 timeout=2400, mem=16, cost=20))
    return out


# (not registered: the per-phase jobs with a fully symbolic matrix do not finish - DESIGN 10.6)


def _c20_jobs(tier, seed):
    if tier == "quick":
        return []
    m = 3
    lists = [(1, a, 0) for a in range(m)] + [(2, a, b) for a in range(m) for b in range(m) if a != b]
    out = []
    for (n, a, b) in lists:
        out.append(dict(id="C20.graph.M%d.list%s" % (m, ("%d" % a) if n == 1 else ("%d%d" % (a, b))), prop="C20", cls="bounded",
                 bound="%d stub modules, every dependency matrix (2^%d graphs incl. cycles and self loops), any subset loadable; configuration lists %s" % (m, m * m, ("m%d" % a) if n == 1 else ("m%d, m%d" % (a, b))),
                 srcs=["src/common.c"], stubs=["stubs/printf_model.c"], harness="harness/h_module.c", entry="h_module_graph",
                 defines=["MODS=%d" % m, "LIST_N=%d" % n, "LIST_0=%d" % a, "LIST_1=%d" % b], checks=["ptr"],
                 remove_bodies=["xmalloc", "xrealloc"], late_stubs=["stubs/tramp_module.c"],
                 cbmc=["--unwind", str(m + 2), "--unwinding-assertions", "--object-bits", "10", "--no-malloc-may-fail",
                       "--unwindset", "dispose:2,module_cleanup:2,strcasecmp.0:4,strlen.0:4,strcpy.0:4,vsnprintf.0:12,vsnprintf.1:6,model_xrealloc.0:9,const_string_vector_remove.0:%d" % (2 * m + 2)],
                 functions=["module_load_list", "module_load", "module_depends", "module_dfs", "module_close_all", "module_cleanup", "module_get", "const_string_vector_remove"],
                 assumptions=["S4 dlopen/dlsym/dlclose by model: stub modules whose constructors call the real module_depends",
                              "module table through the set contract instantiated for the keys m0..m3 (array of slots), discharged for set.c in C19"],
                 timeout=3000, mem=16, cost=50))
    return out


# (not registered: whole run with a fully symbolic matrix: symbolic execution still running after 40 minutes; the concrete-graph jobs below cover the same space exhaustively)


def _c20_concrete_jobs(tier, seed):
    """one job per dependency graph (concrete matrix): exhaustive over all 2^(M*M) graphs of M modules,
    each run is a plain execution of the real module.c by the verifier (no symbolic structure)"""
    out = []
    m = 3
    def job(matrix, n, a, b, loadable=7):
        return dict(id="C20.run.M%d.g%03o.list%s%s" % (m, matrix, ("%d" % a) if n == 1 else ("%d%d" % (a, b)), "" if loadable == 7 else ".ok%d" % loadable), prop="C20", cls="bounded",
                 bound="3 stub modules, dependency matrix %03o octal (row i = what mi depends on), configuration lists %s%s" % (matrix, ("m%d" % a) if n == 1 else ("m%d, m%d" % (a, b)), "" if loadable == 7 else ", loadable set %d" % loadable),
                 srcs=["src/common.c"], stubs=["stubs/printf_model.c"], harness="harness/h_module.c", entry="h_module_graph",
                 defines=["MODS=%d" % m, "LIST_N=%d" % n, "LIST_0=%d" % a, "LIST_1=%d" % b, "MATRIX=%d" % matrix, "LOADABLE=%d" % loadable], checks=["ptr"],
                 remove_bodies=["xmalloc", "xrealloc"], late_stubs=["stubs/tramp_module.c"],
                 cbmc=["--unwind", str(m + 2), "--unwinding-assertions", "--object-bits", "10", "--no-malloc-may-fail",
                       "--unwindset", "dispose:2,module_cleanup:2,strcasecmp.0:4,strlen.0:4,strcpy.0:4,vsnprintf.0:12,vsnprintf.1:6,model_xrealloc.0:9,const_string_vector_remove.0:%d" % (2 * m + 2)],
                 functions=["module_load_list", "module_load", "module_depends", "module_dfs", "module_close_all", "module_cleanup", "module_get", "const_string_vector_remove"],
                 assumptions=["S4 dlopen/dlsym/dlclose by model: stub modules whose constructors call the real module_depends",
                              "module table through the set contract instantiated for the keys m0..m3 (array of slots), discharged for set.c in C19",
                              "xmalloc/xrealloc by typed allocation models (harness/h_module.c)"],
                 timeout=600, mem=8, cost=1)
    lists = [(1, 0, 0), (2, 1, 2)] if tier == "quick" else [(1, 0, 0), (1, 1, 0), (1, 2, 0), (2, 1, 2), (2, 2, 1)]     # (all nine listings: > 45 min; these five: about 15 min)
    for (n, a, b) in lists:
        for x in range(512):
            if tier == "quick" and n == 2 and (x + seed) % 3:
                continue            # quick: every graph with the listing (m0); a rotating third of them with (m1, m2)
            out.append(job(x, n, a, b))
    for x in (0, 2, 0o46, 0o120):
        for ok in (6, 5, 3):
            out.append(job(x, 1, 0, 0, ok))
    # four modules: the diamond top -> {l, r} -> bottom under every naming (the table order decides the walk order)
    import itertools
    for perm in itertools.permutations(range(4)):
        t, l, r, bt = perm
        mat = (1 << (t * 4 + l)) | (1 << (t * 4 + r)) | (1 << (l * 4 + bt)) | (1 << (r * 4 + bt))
        j = job(mat, 1, t, 0, 15)
        j["id"] = "C20.run.M4.diamond.%d%d%d%d" % perm
        j["defines"] = ["MODS=4", "LIST_N=1", "LIST_0=%d" % t, "LIST_1=0", "MATRIX=%d" % mat, "LOADABLE=15"]
        j["bound"] = "4 stub modules, diamond m%d -> {m%d, m%d} -> m%d, configuration lists m%d" % (t, l, r, bt, t)
        j["cbmc"] = [c.replace("const_string_vector_remove.0:8", "const_string_vector_remove.0:10") for c in j["cbmc"]]
        j["cbmc"][1] = "6"
        out.append(j)
    def job4(jid, mat, lst, bound):
        j = job(0, 1, 0, 0, 15)
        j["id"] = jid
        j["defines"] = ["MODS=4", "LIST_N=%d" % len(lst), "MATRIX=%d" % mat, "LOADABLE=15"] + ["LIST_%d=%d" % (k, v) for k, v in enumerate(lst)] + (["LIST_1=0"] if len(lst) < 2 else [])
        j["bound"] = bound
        j["cbmc"] = [c.replace("const_string_vector_remove.0:8", "const_string_vector_remove.0:10") for c in j["cbmc"]]
        j["cbmc"][1] = "6"
        return j
    # four modules: a chain x -> y -> z plus an unrelated module w, both x and w listed, under every naming
    # (the unload rounds must keep sweeping until nothing is released, whatever the table order)
    for perm in itertools.permutations(range(4)):
        x, y, z, w = perm
        mat = (1 << (x * 4 + y)) | (1 << (y * 4 + z))
        out.append(job4("C20.run.M4.chain_plus_one.%d%d%d%d" % perm, mat, [x, w], "4 stub modules, chain m%d -> m%d -> m%d and unrelated m%d, configuration lists m%d, m%d" % (x, y, z, w, x, w)))
    # four modules: pseudo-random graphs (a different slice per VERIF_SEED in the quick tier), all four modules listed in order 3,1,0 / 0,2,3
    import random
    rnd = random.Random(20260929 + (seed if tier == "quick" else 0))
    for k in range(96 if tier == "quick" else 256):
        mat = rnd.getrandbits(16) & rnd.getrandbits(16)      # sparse: about a quarter of the edges
        lst = [3, 1, 0] if k % 2 else [0, 2, 3]
        out.append(job4("C20.run.M4.rand.g%04x.list%s" % (mat, "".join(map(str, lst))), mat, lst,
                        "4 stub modules, dependency matrix %04x (pseudo-random), configuration lists %s" % (mat, ", ".join("m%d" % v for v in lst))))
    seen = set(); uniq = []
    for j in out:
        if j["id"] not in seen:
            seen.add(j["id"]); uniq.append(j)
    return uniq


GENERATORS.append(_c20_concrete_jobs)

# =========================================================================== config.c (C14, C15, C16)
CFG_STUBS = ["stubs/tramp_set.c", "stubs/printf_model.c", "stubs/strto_model.c"]
CFG_RM = []


def CJ(id, prop, entry, remove=(), extra_props=(), **kw):
    d = dict(id=id, prop=prop, cls="bounded", srcs=["src/common.c"], stubs=CFG_STUBS, harness="harness/h_config.c", entry=entry,
             remove_bodies=CFG_RM + list(remove), late_stubs=["stubs/tramp_config.c"], checks=["ptr", "shift"], solver="kissat", fp_valueset=True,
             cbmc=["--unwind", "10", "--unwinding-assertions", "--object-bits", "10", "--no-malloc-may-fail"] + kw.pop("cbmc", []),
             unwind_rules=[("ctype_init", r"token_chars\[ii\]", 32), ("ctype_init", r"hex_digits\[ii\]", 18)], unwind_rules_optional=True,
             timeout=1800, cost=5, assumptions=["set.c through its contract (spec/set_model.h, C19)", "longjmp never returns; setjmp modelled by its two kinds of return"])
    d.update(kw)
    J(**d)
    for p2 in extra_props:
        d2 = dict(d); d2["id"] = id.replace(prop + ".", p2 + ".", 1); d2["prop"] = p2
        J(**d2)


PROPS["C14"] = dict(level="model_checking", explanation="tokenizer memory safety on every buffer up to the stated length; conf_read's control flow: no merge, no notification on any error return")
PROPS["C15"] = dict(level="model_checking", explanation="per node kind: value after load, hook exactly on change (strings typed, lists), ownership of moved host/service pairs")
PROPS["C16"] = dict(level="model_checking", explanation="typed value parsers against reference readings; quoted strings byte for byte; bounded lengths; grammar-level for-all over renderings is NOT decided")
IJ("C06.xq_password", "C06", "h_xq_password", XQ_CALLEES + ["iauth_xquery_check"], harness="harness/h_iauth_xq.c", functions=["iauth_xquery_password", "iauth_xquery_check_password"],
   extra_props=("C02",), cbmc=["--unwind", "4", "--unwindset", "model_x_query.0:13,model_x_query.1:12,strcmp.0:5,strchr.0:13,strncpy.0:513,spec_pw_shape.0:13,spec_pw_shape.1:13,spec_pw_shape.2:13,iauth_xquery_check_password.0:13,iauth_xquery_check_password.1:13,iauth_xquery_check_password.2:13,iauth_xquery_check_password.3:13,h_xq_password.0:13"],
   unwind_rules=[("iauth_xquery_password", r"for \(ii = 0", 3)], assumptions=SET_ASSUME, bound="service table of 2 slots, password text of <= 10 bytes", cls="bounded", timeout=2400, cost=10, defines=["NSRV=2"])
CFG_NATIVE = dict(stubs=["stubs/tramp_set.c", "stubs/native_cfg.c"], libs=["-levent"])
CJ("C16.typed_values.len7", "C16", "h_typed_values", functions=["conf_parse_boolean", "conf_parse_interval", "conf_parse_volume"], bound="value text of <= 7 bytes", replay=CFG_NATIVE,
   cbmc=["--unwindset", "strcmp.0:10"])
CJ("C16.string_value.len7", "C16", "h_string_value", functions=["conf_parse_string_value"], replay=CFG_NATIVE, extra_props=("C15",), bound="value text of <= 7 bytes", cbmc=["--unwindset", "strcmp.0:10,memcmp.0:10"])
CJ("C15.string_list.len3", "C15", "h_string_list_value", functions=["conf_set_string_list_value"], replay=CFG_NATIVE, extra_props=("C16",), bound="lists of <= 3 one-byte items")
CJ("C14.conf_read", "C14", "h_conf_read", remove=["conf_read_file", "conf_parse_entry", "conf_replace_value"], functions=["conf_read"], extra_props=("C15",),
   cls="proof", bound="", cbmc=["--nondet-static", "--unwindset", "memset.0:200"])
CJ("C14.parse_string.len8", "C14", "h_parse_string", remove=["xmalloc", "xrealloc"], late_stubs=["stubs/tramp_config.c", "stubs/xmalloc_small.c", "stubs/xrealloc_small.c"],
   functions=["conf_parse_string", "conf_parse_whitespace"], extra_props=("C16",), bound="file buffers of <= 8 bytes", replay=CFG_NATIVE,
   cbmc=["--unwindset", "memset.0:40"], defines=["TOK_LEN=8"], mem=16, solver="minisat")
CJ("C14.parse_whitespace.len8", "C14", "h_parse_whitespace", functions=["conf_parse_whitespace"], replay=CFG_NATIVE, extra_props=("C16",), bound="file buffers of <= 8 bytes")
for _t in range(11):
    CJ("C16.entry_template.t%02d" % _t, "C16", "h_parse_entry_template", remove=["xmalloc", "xrealloc"], late_stubs=["stubs/tramp_config.c", "stubs/xmalloc_mid.c", "stubs/xrealloc_small.c"],
       functions=["conf_parse_entry", "conf_parse_get_child", "conf_parse_string", "conf_parse_whitespace"], bound="one concrete documented rendering", defines=["TPL=%d" % _t],
       cbmc=["--unwind", "24", "--unwindset", "conf_parse_entry:3,memset.0:200,str_eq.0:17,nth.0:4,strcasecmp.0:4,strcmp.0:4,strdup.0:4,strlen.0:4"], solver="minisat", timeout=900, mem=16)
CJ("C15.replace_object.omitted", "C15", "h_replace_object_scenario", functions=["conf_replace_value", "conf_parse_string_value"], bound="one concrete scenario (registered block omitted by the new file; timed out after 900 s: not part of any tier)", tiers=(),
   defines=["SCN=0"], remove=["xmalloc", "xrealloc"], late_stubs=["stubs/tramp_config.c", "stubs/xmalloc_small.c", "stubs/xrealloc_small.c"],
   cbmc=["--unwind", "5", "--unwindset", "conf_replace_value:3,conf_object_cleanup:2,model_set_clear:2,sm_dispose:3,set_clear:2,memset.0:200,strcasecmp.0:4,strcmp.0:4,strdup.0:4,strlen.0:4"], solver="minisat", timeout=900, mem=16)
CJ("C15.replace_inaddr", "C15", "h_replace_inaddr", functions=["conf_replace_value"], extra_props=("C14",), bound="(does not finish: not part of any tier)", cls="proof", tiers=(),
   cbmc=["--unwind", "4", "--unwindset", "strcasecmp.0:4,conf_replace_value:1,conf_object_cleanup:2,model_set_clear:2,sm_dispose:2,set_clear:2"])

PROPS["C17"] = dict(level="model_checking", explanation="service-table rebuild executed for every small section x previous table (exhaustive enumeration); merge-side hook delivery: known finding F13")
def _c17_sections():
    types = (0, 1, 2, 3, 4)
    return [(0, 0, 0)] + [(1, t, 0) for t in types] + [(2, t, u) for t in types for u in types]


C17_KW = dict(harness="harness/h_iauth_xq.c", functions=["iauth_xquery_services_changed", "iauth_xquery_config_service", "iauth_xquery_unref"], cls="bounded",
              cbmc=["--unwind", "7", "--object-bits", "14", "--unwindset", "strcmp.0:4,strcasecmp.0:12,strlen.0:4,strcpy.0:4,memset.0:120"], assumptions=SET_ASSUME, mem=16)
for _q in (0, 1):
    IJ("C17.xq_services_changed.quick.part%d" % _q, "C17", "h_xq_services_changed", ["iauth_send", "iauth_check_request"] + SETM, tiers=("quick",),
       bound="8 hand-picked (section, previous table) pairs, 4 per job: fresh start, additions, removal, in-place protocol change, reuse of a freed slot, still-awaited leftovers, unknown protocol word",
       defines=["NSRV=2", "SVC_QUICK=%d" % _q], timeout=2400, cost=8, **C17_KW)
for (_n, _t0, _t1) in _c17_sections():
    IJ("C17.xq_services_changed.n%dt%d%d" % (_n, _t0, _t1), "C17", "h_xq_services_changed", ["iauth_send", "iauth_check_request"] + SETM, tiers=("thorough",),
       bound="one section (%d services, protocols %d/%d; 4 = unknown word) x every previous table of 0-2 slots (hole / sA / sB / sC, configured or only referenced): 111 concrete cases" % (_n, _t0, _t1),
       defines=["NSRV=2", "SEC_N=%d" % _n, "SEC_T0=%d" % _t0, "SEC_T1=%d" % _t1], timeout=14000, cost=8, **C17_KW)

# =========================================================================== log.c (C18, C09)
PROPS["C18"] = dict(level="model_checking", explanation="severity-set parser against the mathematical set for every 1-2 item expression; message fan-out per destination; rescan not under contract")
LOG_STUBS = ["stubs/tramp_set.c", "stubs/printf_model.c", "stubs/strto_model.c", "stubs/stdout_model.c"]
def _log_jobs(tier, seed):
    out = []
    for _e, _fn, _un in (("h_log_sevset", ["log_parse_type_sevset"], "strcpy.0:24,h_log_sevset.0:11,h_log_sevset.1:11,h_log_sevset.2:11,h_log_sevset.3:11,strcasecmp.0:9,strchr.0:24,strcmp.0:4,strlen.0:24,put.0:9,memset.0:300,strdup.0:24"),
                         ("h_log_message", ["log_vmessage", "log_message"], "vsnprintf.0:3,vsnprintf.1:6,memset.0:64")):
        for _p in (("C18",) if _e == "h_log_sevset" else ("C18", "C09")):
            sl = (_e == "h_log_sevset" and tier == "quick")
            for o0 in ((0, 1) if sl else range(6) if _e == "h_log_sevset" else (None,)):
              out.append(dict(id="%s.%s%s%s" % (_p, _e[2:], ".quick" if sl else "", (".%s%d" % ("part" if sl else "op", o0)) if o0 is not None else ""), prop=_p, cls="bounded" if _e == "h_log_sevset" else "proof",
              bound=("20 hand-picked expressions (every operator, every name, list forms) - 10 per job" if sl else
                     "every expression of 1-2 items over all 6 operators and 7 names, plus * and the dot-less form: 1808 concrete cases, exhaustive") if _e == "h_log_sevset" else "",
              srcs=["src/common.c", "src/config.c"], stubs=LOG_STUBS, harness="harness/h_log.c", entry=_e, checks=["ptr", "shift"],
              defines=(["SEV_QUICK=%d" % o0] if sl else (["SEV_O0=%d" % o0] if o0 is not None else [])),
              cbmc=["--unwind", "11", "--unwinding-assertions", "--object-bits", "14", "--no-malloc-may-fail", "--unwindset", _un],
              functions=_fn, assumptions=["set.c through its contract (spec/set_model.h, C19)", "S1 stdio: only the target stream of a write is modelled"],
              timeout=(2400 if tier == "quick" else 14000), cost=5, mem=24))
    return out


for _c in range(5):
    J(id="C18.log_rescan.case%d" % _c, prop="C18", cls="bounded", srcs=["src/common.c", "src/config.c"], stubs=LOG_STUBS + ["stubs/memcpy_loop.c"], harness="harness/h_log.c", entry="h_log_rescan",
      checks=["ptr", "shift"], defines=["LR_CASE=%d" % _c], remove_bodies=["log_parse_type_sevset", "log_message", "xrealloc"], late_stubs=["stubs/tramp_log.c", "stubs/xrealloc_small.c"],
      replaced_models=["log_parse_type_sevset", "log_message"],
      cbmc=["--unwind", "7", "--unwinding-assertions", "--object-bits", "12", "--no-malloc-may-fail", "--unwindset", "strcasecmp.0:7,strcmp.0:7,strlen.0:8,strchr.0:8,memcpy.0:40,memset.0:1200,strcpy.0:8,lr_mkdest.0:9"],
      functions=["log_rescan_conf", "log_rescan_type", "log_attach_destinations", "log_destination_open", "log_destination_cleanup"],
      bound="section of two entries, concrete reading per job: %s; previous routing with one stale destination, arbitrary old reference counts" %
            ("t.>=warning -> a, t.info,warning -> b, then entry 1 edited in place", "*.* -> a, t.error -> list (b, a)", "unknown syntax + t.debug -> b, facility with a default target",
             "entry without value + unknown facility", "both entries name the same destination")[_c],
      assumptions=["set.c through its contract (spec/set_model.h, C19)", "log_parse_type_sevset through its contract (decided in C18.log_sevset.*)",
                   "config.c runs the hook of a node whose value it edits in place (C15.typed_values / string_list jobs)"],
      timeout=2400, cost=5, mem=24,
      restrict_fp=["log_destination_cleanup.function_pointer_call.1/lr_close", "log_destination_open.function_pointer_call.1/lr_open"])

GENERATORS.append(_log_jobs)
