"""obligations.py - registry: which real function is proved against which contract, with
which callee contracts assumed, which loop contracts injected and which back end.

A *job* is one goto-cc/goto-instrument/cbmc run; each CBMC property in it is one obligation.
"""
import re, os

TRUSTED_BASE = [
    "A1 CBMC 6.11 / goto-instrument DFCC and the SAT/SMT back ends (minisat, kissat, cvc5)",
    "A2 machine model as configured by goto-cc: LP64, little-endian x86-64, bit-precise arithmetic (no mathematical-integer idealisation)",
    "A3 -D__NO_CTYPE: isspace/isdigit/tolower are CBMC's C-locale models (the daemon never calls setlocale)",
]
ASSUMPTIONS = [
    "A4 malloc/calloc do not fail in functional postconditions (the code exits through LOG_FATAL otherwise); object sizes <= CBMC max_malloc_size",
]

# per property: level claimed in MANIFEST, extra trusted items, explanation
PROPS = {}
JOBS = []          # static jobs
GENERATORS = []    # callables (tier, seed) -> [jobs]
LOOPS = {}         # key -> injection row


def J(**kw):
    kw.setdefault("tiers", ("quick", "thorough"))
    JOBS.append(kw)
    return kw


def jobs_for(prop, tier, seed):
    out = [j for j in JOBS if j["prop"] == prop and tier in j["tiers"]]
    for g in GENERATORS:
        out += [j for j in g(tier, seed) if j["prop"] == prop]
    return out


def all_jobs():
    out = list(JOBS)
    for g in GENERATORS:
        for t in ("quick", "thorough"):
            for j in g(t, 0):
                if not any(x["id"] == j["id"] for x in out):
                    out.append(j)
    return out


def job_by_id(i):
    for j in all_jobs():
        if j["id"] == i:
            return j
    return None


def enforced_anywhere():
    return {f for j in all_jobs() for f in j.get("enforce", [])} | {f for j in all_jobs() for f in j.get("functions", [])}


def loops_for(jobs):
    keys = []
    for j in jobs:
        for k in j.get("inject", []):
            if k not in keys:
                keys.append(k)
    return [LOOPS[k] for k in keys]


NET = "stubs/netorder.c"
NATIVE_MISC = dict(stubs=["stubs/native_env.c"], extra_srcs=["src/common.c"])

# =========================================================================== C13
PROPS["C13"] = dict(
    level="proof",
    explanation="irc_check_mask is enforced against its contract for all (address, mask, bits) triples; "
                "parser obligations are listed per job with their class",
)

J(id="C13.check_mask", prop="C13", cls="width-complete", bound="loops bounded by the 8 address groups / 128 bits",
  srcs=["modules/iauth_misc.c"], harness="harness/h_misc.c", entry="h_check_mask", stubs=[NET],
  enforce=["irc_check_mask"], checks=["ptr", "shift", "ovf"],
  cbmc=["--unwind", "130", "--unwinding-assertions"],
  expect=[r"irc_check_mask\.postcondition", r"irc_check_mask\.undefined-shift"],
  functions=["irc_check_mask"], replay=NATIVE_MISC, cost=1)

# =========================================================================== C19
PROPS["C19"] = dict(
    level="model_checking",
    explanation="comparators: contracts enforced over the whole key domain (proof class); tree operations: inductive "
                "step 'well-formed set + one real operation => well-formed set with the abstract result' from every "
                "well-formed tree of up to N nodes (bounded class, N in the job id)",
)
NATIVE_SET = dict(stubs=["stubs/native_env.c"], extra_srcs=["src/common.c"])
for fn, chk in (("int", ["ptr", "ovf"]), ("voidp", ["ptr"]), ("ptr", ["ptr"])):
    J(id="C19.compare_" + fn, prop="C19", cls="proof", srcs=["src/set.c"], harness="harness/h_set_cmp.c",
      entry="h_compare_" + fn, enforce=["set_compare_" + fn], checks=chk,
      expect=[r"set_compare_%s\.postcondition" % fn], functions=["set_compare_" + fn], replay=NATIVE_SET)
J(id="C19.compare_charp.len8", prop="C19", cls="bounded", bound="strings of at most 8 bytes (strcasecmp is CBMC's libc model, S2)",
  srcs=["src/set.c"], harness="harness/h_set_cmp.c", entry="h_compare_charp", checks=["ptr"],
  cbmc=["--unwind", "10", "--unwinding-assertions"], functions=["set_compare_charp"], replay=NATIVE_SET,
  assumptions=["S2 strcasecmp is CBMC's built-in C-locale model"])


def _set_jobs(tier, seed):
    out = []
    ns = (3, 4) if tier == "quick" else (4, 5)
    for n in ns:
        for op in ("insert", "remove", "find", "lower", "clear"):
            out.append(dict(
                id="C19.set_%s.N%d" % (op, n), prop="C19", cls="bounded",
                bound="every well-formed set of at most %d elements (all BST shapes, full int key range), one operation" % n,
                srcs=["src/set.c"], harness="harness/h_set_ops.c", entry="h_set_" + op, defines=["SETN=%d" % n],
                checks=["ptr", "ovf"], solver=os.environ.get("SETSOLVER", "minisat"),
                cbmc=["--unwind", str(n + 3), "--unwinding-assertions", "--no-malloc-may-fail"],
                functions=["set_" + op, "set_splay", "set_first", "set_dispose_node"], replay=NATIVE_SET,
                timeout=3000, mem=14, cost=10 ** (n - 2)))
    return out


GENERATORS.append(_set_jobs)
