/* vh.h - harness vocabulary shared by the CBMC proofs and the native replays.
 *
 * Every harness is written once and compiled twice:
 *   - by goto-cc (no VERIF_NATIVE): inputs are unconstrained symbolic values, V_ASSERT is
 *     a proof obligation, V_ASSUME restricts the input domain, V_CANARY() is an assertion
 *     that MUST fail (it shows the harness end is reachable, i.e. the assumptions and the
 *     callee contracts are not contradictory);
 *   - by gcc -fsanitize=address,undefined with -DVERIF_NATIVE: V_IN(x) takes the value the
 *     verifier's counterexample gave to x (generated header, see vlib/replay.py), V_ASSERT
 *     re-evaluates the same postcondition on the real code's result.
 *
 * Convention: every symbolic input is a file-scope scalar or struct variable whose name
 * starts with in_ and which is set exactly once with V_IN().
 */
#ifndef VERIF_VH_H
#define VERIF_VH_H

#ifdef VERIF_NATIVE

#include <stdio.h>
#include <stdlib.h>
#include <string.h>
extern int vr_failed;
#define __CPROVER_requires(...)
#define __CPROVER_ensures(...)
#define __CPROVER_assigns(...)
#define __CPROVER_frees(...)
#define V_IN(var) VR_SET_##var
#define V_ASSUME(c) do { if (!(c)) { printf("REPLAY-REJECT: input does not satisfy: %s\n", #c); exit(77); } } while (0)
#define V_ASSERT(c, msg) do { if (!(c)) { printf("REPLAY-VIOLATION: %s\n", msg); vr_failed = 1; } } while (0)
#define V_CANARY() ((void)0)

#else /* CBMC */

/* whole-object havoc: (an uninitialised local of union type is NOT a consistent nondet value
 * in CBMC 6.11 - its members disagree - so inputs are havocked in place) */
#define V_IN(var) __CPROVER_havoc_object(&(var))
#define V_ASSUME(c) __CPROVER_assume(c)
#define V_ASSERT(c, msg) __CPROVER_assert((c), msg)
#define V_CANARY() __CPROVER_assert(0, "vacuity canary: harness end reachable")

#endif

#endif /* VERIF_VH_H */
