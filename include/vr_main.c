/* native replay entry point: runs the harness named by -DVERIF_ENTRY once */
#include <stdio.h>
int vr_failed;
void VERIF_ENTRY(void);
int main(void)
{
    VERIF_ENTRY();
    if (!vr_failed)
        printf("REPLAY-OK\n");
    return vr_failed ? 1 : 0;
}
