#!/bin/sh
# usage: run.sh <built tree> ; exit 0 = junk is rejected, 1 = junk accepted as a volume
T="${1:-/repo}"; D=$(mktemp -d)
gcc -w -I"$T" "$(dirname "$0")/demo.c" "$T"/src/config.c "$T"/src/common.c "$T"/src/set.c "$T"/src/log.c "$T"/src/module.c "$T"/src/bitset.c "$T"/src/accumulators.c "$T"/src/git-version.c -DSYSCONFDIR='"/etc"' -DMODULESDIR='"/lib"' -DLOGDIR='"/tmp"' -levent -ldl -lm -o $D/demo 2>$D/err || { cat $D/err | head; rm -rf $D; exit 2; }
cat > $D/glue.c <<'G'
G
$D/demo; rc=$?; rm -rf $D; exit $rc
