/* F8: conf_parse_volume accepts any junk and never reports "unparsable".
 * build: gcc -I/repo findings/F8/demo.c /repo/src/config.c ... (see run.sh) ; prints success flags */
#include "src/common.h"
#include <stdio.h>
struct event_base *ev_base; struct evdns_base *ev_dns; int clean_exit;
int main(void)
{
    const char *t[] = { "12xyz", "hello", "5B", "1K2", "7 " };
    unsigned i; int bad = 0;
    for (i = 0; i < 5; i++) {
        int ok = -1; unsigned v = conf_parse_volume(t[i], &ok);
        printf("conf_parse_volume(\"%s\") = %u success=%d\n", t[i], v, ok);
        if (i < 2 && ok) bad = 1;
        if (i == 4 && ok) bad = 1;
    }
    return bad;
}
