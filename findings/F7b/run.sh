#!/bin/sh
# F7b: a service added by a reload into a slot freed by an earlier reload is never configured.
# services {s1,s3} -> reload {s3} -> reload {s2,s3}; then "? config" must list s2 and s3.
# usage: run.sh <built tree>   exit 0 = both listed, 1 = s2 missing
T="${1:-/repo}"; D=$(mktemp -d)
conf() { printf 'core {\n    library_path ( "%s/modules/.libs" )\n    modules ( iauth_xquery )\n}\niauth_xquery {\n%s}\n' "$T" "$1" > $D/conf; }
conf "    s1.example.org login
    s3.example.org login
"
mkfifo $D/in
"$T/src/iauthd-c" -n -f $D/conf < $D/in > $D/out 2>/dev/null &
P=$!
exec 3> $D/in
sleep 0.5
conf "    s3.example.org login
"; kill -USR1 $P; sleep 0.5
conf "    s2.example.org dronecheck
    s3.example.org login
"; kill -USR1 $P; sleep 0.5
printf -- '-1 ? config\n' >&3; sleep 0.5
exec 3>&-; wait $P 2>/dev/null
grep "^A xquery" $D/out | tail -3
if grep -q "^A xquery : s2.example.org dronecheck" $D/out; then rc=0; else echo "s2.example.org is NOT configured after the reload"; rc=1; fi
rm -rf $D; exit $rc
