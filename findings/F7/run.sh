#!/bin/sh
# F7: a password that releases the last hard hold (-!) is not followed by a gate evaluation:
# the client has all data, no hold, no awaited service - and gets no verdict.
# usage: run.sh <built tree>   exit 0 = verdict issued (property holds), 1 = client left waiting
T="${1:-/repo}"; D=$(mktemp -d)
sed "s|@MODS@|$T/modules/.libs|" "$(dirname "$0")/conf.in" > $D/conf
( while IFS= read -r l; do printf '%s\n' "$l"; sleep 0.2; done < "$(dirname "$0")/history.txt"; sleep 0.5 ) | "$T/src/iauthd-c" -n -f $D/conf > $D/out 2>/dev/null
cat $D/out
if grep -q '^[DR] 1 ' $D/out; then rc=0; else echo "NO VERDICT for client 1 although it is complete"; rc=1; fi
rm -rf $D; exit $rc
