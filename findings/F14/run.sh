#!/bin/sh
# findings/F14/run.sh <built tree> : three stub modules aa_top -> {mm_mid, zz_base}, mm_mid -> zz_base
# (acyclic; zz_base is reachable along two paths).  C20: start-up must succeed and post-init must
# run once per module, dependencies first.  Prints the event log and the daemon's exit status.
T=${1:-/repo}
D=$(mktemp -d /tmp/f14-XXXXXX)
for m in aa_top mm_mid zz_base; do
  case $m in
    aa_top) deps='module_depends("mm_mid", "zz_base", NULL);' ;;
    mm_mid) deps='module_depends("zz_base", NULL);' ;;
    *) deps='' ;;
  esac
  cat > $D/$m.c <<EOF
#include "src/common.h"
void module_constructor(const char name[]) { fprintf(stderr, "ctor-begin $m\n"); $deps fprintf(stderr, "ctor-end $m\n"); (void)name; }
void module_post_init(struct module *self) { fprintf(stderr, "post-init $m\n"); (void)self; }
void module_destructor(void) { fprintf(stderr, "dtor $m\n"); }
EOF
  gcc -shared -fPIC -I$T -o $D/$m.so $D/$m.c || exit 2
done
cat > $D/f14.conf <<EOF
core {
	library_path ( "$D" )
	modules ( aa_top )
}
logs { "*.>=info" "file:$D/f14.log" }
EOF
(cd $T && ./src/iauthd-c -n -k -f $D/f14.conf </dev/null) 2>&1 | grep -E "ctor|post-init|dtor|valid|loop|Module" 
echo "exit status: $?"
(cd $T && ./src/iauthd-c -n -k -f $D/f14.conf </dev/null >/dev/null 2>&1); echo "daemon exit status: $?"
grep -i "loop\|depend" $D/f14.log 2>/dev/null | tail -3
rm -rf $D
