/* harness/h_module.c - C20: module load / post-init / unload order (src/module.c)
 *
 * The real module.c is included verbatim.  The dynamic loader is replaced by a model (S4):
 * MODS stub modules m0..m{MODS-1}; module mi's constructor calls the REAL module_depends()
 * for every j with dep[i][j] (a fully symbolic dependency matrix), and constructors, post-init
 * hooks and destructors append to a ghost event log.  The module table is used through the
 * set contract (spec/set_model.h).  LOG_FATAL terminates the process, as in log.c.
 */
#include "vh.h"
#include "src/module.c"
#include <dlfcn.h>

/* The module table through the set contract, instantiated for the key universe of this
 * harness: names "m0".."m3" (set_compare_charp order == index order), so the sorted map is an
 * array of slots.  Same observable behaviour as spec/set_model.h: find/insert(replace with
 * disposal)/remove(with disposal)/first/next in key order, count. */
#ifndef MODS
#define MODS 3
#endif
static struct set_node *slot[4];
static unsigned key_of(const char *name)
{
    V_ASSERT(name[0] == 'm' && name[1] >= '0' && name[1] < '0' + MODS && name[2] == '\0', "harness: module names are m0..m3");
    return (unsigned)(name[1] - '0');
}
static void relink(struct set *set)
{
    unsigned i; struct set_node *prev = NULL;
    set->root = NULL; set->count = 0;
    for (i = 0; i < MODS; i++) if (slot[i]) {
        slot[i]->l = slot[i]->r = NULL; slot[i]->prev = prev; slot[i]->next = NULL;
        if (prev) prev->next = slot[i]; else set->root = slot[i];
        prev = slot[i]; set->count++;
    }
}
struct set_node *set_first(struct set *set) { return set->root; }
void *set_find(struct set *set, const void *datum)
{
    unsigned k;
    if (!set || !set->root || !datum) return NULL;
    k = key_of(*(char *const *)datum);
    return slot[k] ? set_node_data(slot[k]) : NULL;
}
static void dispose(struct set *set, struct set_node *n)
{
    if (set->cleanup) { V_ASSERT(set->cleanup == module_cleanup, "harness: the module table's disposal callback"); module_cleanup(set_node_data(n)); }
    if (__CPROVER_DYNAMIC_OBJECT(n)) free(n);      /* the per-phase harnesses use file-scope module records */
}
void set_insert(struct set *set, struct set_node *node)
{
    unsigned k = key_of(((struct module *)set_node_data(node))->name);
    struct set_node *old = slot[k];
    slot[k] = node; relink(set);
    if (old) dispose(set, old);
}
int set_remove(struct set *set, void *datum, int no_dispose)
{
    unsigned k; struct set_node *n;
    if (!set || !set->root) return 0;
    k = key_of(((struct module *)datum)->name);
    n = slot[k];
    if (!n) return 0;
    slot[k] = NULL; relink(set);
    if (!no_dispose) dispose(set, n);
    return 1;
}
void set_clear(struct set *set, int no_dispose)
{
    unsigned i;
    for (i = 0; i < MODS; i++) if (slot[i]) { struct set_node *n = slot[i]; slot[i] = NULL; if (!no_dispose) dispose(set, n); }
    relink(set);
}
int set_compare_charp(const void *a_, const void *b_) { char *const *a = a_, *const *b = b_; return strcasecmp(*a, *b); }

#ifdef LIST_2
#define NLIST 3
#else
#define NLIST 2
#endif
#ifndef LOADABLE
#define LOADABLE 15
#endif

/* ---- allocation: xmalloc / xrealloc by contract ("zeroed block of at least `size` bytes" / "old
 * contents kept up to the smaller size"), returning TYPED objects.  calloc(1, a + b) is a byte
 * array for the verifier: pointers stored in a module record would come back byte by byte and no
 * later comparison would be concrete (this is what kept the earlier C20 harnesses from finishing).
 * Module records and name vectors are typed; anything else is a plain zeroed block. */
struct mnode { struct set_node n; struct module m; char name[3]; };
void *model_xmalloc(unsigned int size)
{
    static const struct mnode zero;
    struct mnode *p;
    if (size != sizeof(struct set_node) + sizeof(struct module) + 3)
        return calloc(1, size);                   /* the exit-handler table of reg_exit_func(): never read here */
    p = malloc(sizeof(*p)); __CPROVER_assume(p != NULL);
    *p = zero;
    return p;
}
void *model_xrealloc(void *ptr, unsigned int size)
{
    const char **old = ptr, **p = NULL;
    unsigned oldn = ptr ? (unsigned)(__CPROVER_OBJECT_SIZE(ptr) / sizeof(char *)) : 0, n = 0, i;
    switch (size) {
    case 4 * sizeof(char *): p = malloc(sizeof(const char *[4])); n = 4; break;
    case 8 * sizeof(char *): p = malloc(sizeof(const char *[8])); n = 8; break;
    default: V_ASSERT(0, "harness: dependency vectors hold 4 or 8 names"); break;
    }
    __CPROVER_assume(p != NULL);
    for (i = 0; i < 8; i++) if (i < n && i < oldn) p[i] = old[i];
    if (ptr) free(ptr);
    return p;
}

/* ------------------------------------------------------------------ symbolic inputs */
struct { unsigned char d[MODS][MODS]; } in_dep;      /* d[i][j] != 0: mi depends on mj */
struct { unsigned int n; unsigned char m[NLIST]; } in_list;   /* modules named in the configuration, in order */
struct { unsigned char ok[MODS]; } in_loadable;     /* does dlopen succeed for mi? */

struct log_type *log_core;
int clean_exit;

static const char *mname(unsigned k) { switch (k) { case 0: return "m0"; case 1: return "m1"; case 2: return "m2"; default: return "m3"; } }
static char stub_handle[4];
static unsigned seq;
static unsigned ctor_begin[MODS], ctor_end[MODS], ctor_n[MODS], post_seq[MODS], post_n[MODS], dtor_seq[MODS], dtor_n[MODS];
static int closing;
static int reach[MODS][MODS];       /* transitive closure of the dependency matrix */
static int needed[MODS];            /* named in the configuration or pulled in by others */

_Bool nondet_bool(void);
/* transitive closure with every intermediate entry bound to a fresh symbol: the in-place
 * Floyd-Warshall update on symbolic booleans yields nested expressions that the symbolic executor
 * handles as trees (a single evaluation took a minute for 3 modules) */
static void closure(void)
{
    unsigned i, j, k;
#ifdef MATRIX
    /* concrete matrix (one job per graph): plain evaluation, everything constant-folds */
    for (i = 0; i < MODS; i++) for (j = 0; j < MODS; j++) reach[i][j] = in_dep.d[i][j] != 0;
    for (k = 0; k < MODS; k++) for (i = 0; i < MODS; i++) for (j = 0; j < MODS; j++)
        if (reach[i][k] && reach[k][j]) reach[i][j] = 1;
    return;
#endif
    for (i = 0; i < MODS; i++) for (j = 0; j < MODS; j++) { _Bool b = nondet_bool(); __CPROVER_assume(b == (in_dep.d[i][j] != 0)); reach[i][j] = b; }
    for (k = 0; k < MODS; k++) {
        int nxt[MODS][MODS];
        for (i = 0; i < MODS; i++) for (j = 0; j < MODS; j++) {
            _Bool b = nondet_bool();
            __CPROVER_assume(b == (reach[i][j] || (reach[i][k] && reach[k][j])));
            nxt[i][j] = b;
        }
        for (i = 0; i < MODS; i++) for (j = 0; j < MODS; j++) reach[i][j] = nxt[i][j];
    }
}
static int has_cycle_x(void) { unsigned i; for (i = 0; i < MODS; i++) if (needed[i] && reach[i][i]) return 1; return 0; }
static int has_unloadable_x(void) { unsigned i; for (i = 0; i < MODS; i++) if (needed[i] && !in_loadable.ok[i]) return 1; return 0; }
/* the graph facts are bound to fresh symbols once (summarise()), so that the many places that
 * consult them do not drag the closure formula along */
static _Bool f_cycle, f_unloadable, f_oncycle[MODS], f_needed[MODS];
_Bool nondet_bool(void);
static int has_cycle(void) { return f_cycle; }
static int has_unloadable(void) { return f_unloadable; }
static void summarise(void)
{
    unsigned i;
#ifdef MATRIX
    f_cycle = has_cycle_x() != 0; f_unloadable = has_unloadable_x() != 0;
    for (i = 0; i < MODS; i++) { f_oncycle[i] = reach[i][i] != 0; f_needed[i] = needed[i] != 0; }
    return;
#endif
    f_cycle = nondet_bool(); __CPROVER_assume(f_cycle == (has_cycle_x() != 0));
    f_unloadable = nondet_bool(); __CPROVER_assume(f_unloadable == (has_unloadable_x() != 0));
    for (i = 0; i < MODS; i++) {
        f_oncycle[i] = nondet_bool(); __CPROVER_assume(f_oncycle[i] == (reach[i][i] != 0));
        f_needed[i] = nondet_bool(); __CPROVER_assume(f_needed[i] == (needed[i] != 0));
    }
}

/* ---- the loader model (S4) ---- */
static void ctor(unsigned i)
{
    unsigned j;
    ctor_n[i]++; ctor_begin[i] = ++seq;
    for (j = 0; j < MODS; j++)
        if (in_dep.d[i][j])
            module_depends(mname(j), NULL);            /* REAL */
    ctor_end[i] = ++seq;
}
static void ctor0(const char *n) { (void)n; ctor(0); }
static void ctor1(const char *n) { (void)n; ctor(1); }
static void ctor2(const char *n) { (void)n; ctor(2); }
#if MODS > 3
static void ctor3(const char *n) { (void)n; ctor(3); }
#endif
static void post(unsigned i) { post_n[i]++; post_seq[i] = ++seq; }
static void post0(struct module *m) { (void)m; post(0); }
static void post1(struct module *m) { (void)m; post(1); }
static void post2(struct module *m) { (void)m; post(2); }
#if MODS > 3
static void post3(struct module *m) { (void)m; post(3); }
#endif
static void dtor(unsigned i) { dtor_n[i]++; dtor_seq[i] = ++seq; }
static void dtor0(void) { dtor(0); }
static void dtor1(void) { dtor(1); }
static void dtor2(void) { dtor(2); }
#if MODS > 3
static void dtor3(void) { dtor(3); }
#endif

void *dlopen(const char *file, int flags)
{
    unsigned i;
    (void)flags;
    for (i = 0; i < MODS; i++)
        if (file[0] == 'm' && file[1] == (char)('0' + i) && file[2] == '\0')
            return in_loadable.ok[i] ? &stub_handle[i] : NULL;
    return NULL;
}
char *dlerror(void) { return "model"; }
int dlclose(void *h) { (void)h; return 0; }
void *dlsym(void *h, const char *sym)
{
    unsigned i = (unsigned)((char *)h - stub_handle);
    if (h == NULL || i >= MODS) return NULL;
    if (sym[7] == 'c') {          /* module_constructor */
        switch (i) { case 0: return (void *)ctor0; case 1: return (void *)ctor1; case 2: return (void *)ctor2;
#if MODS > 3
        case 3: return (void *)ctor3;
#endif
        }
    } else if (sym[7] == 'p') {   /* module_post_init */
        switch (i) { case 0: return (void *)post0; case 1: return (void *)post1; case 2: return (void *)post2;
#if MODS > 3
        case 3: return (void *)post3;
#endif
        }
    } else if (sym[7] == 'd') {   /* module_destructor */
        switch (i) { case 0: return (void *)dtor0; case 1: return (void *)dtor1; case 2: return (void *)dtor2;
#if MODS > 3
        case 3: return (void *)dtor3;
#endif
        }
    }
    return NULL;
}

/* LOG_FATAL terminates start-up (log.c: _exit(1)) */
void log_message(struct log_type *type, enum log_severity sev, const char *format, ...)
{
    unsigned i;
    (void)type; (void)format;
    if (sev == LOG_FATAL) {
        V_ASSERT(has_cycle() || has_unloadable(), "C20: an acyclic graph of loadable modules must not abort start-up (e.g. a module reachable along two paths is not a loop)");
        for (i = 0; i < MODS; i++)
            if (f_oncycle[i]) V_ASSERT(post_n[i] == 0, "C20: start-up aborts before any member of a dependency cycle is post-initialised");
        V_CANARY();
        __CPROVER_assume(0);
    }
}

void h_module_graph(void)
{
    unsigned i, j, k;
    struct string_vector list;
    char *names[NLIST];
    int res;
    V_IN(in_dep); V_IN(in_list); V_IN(in_loadable);
#ifdef LIST_N
    /* the listing is fixed per job (-DLIST_N -DLIST_0 -DLIST_1): module names stay string literals for
     * the symbolic executor, so strlen(name) and the size of the module record are concrete */
    in_list.n = LIST_N; in_list.m[0] = LIST_0; in_list.m[1] = LIST_1;
#ifdef LIST_2
    in_list.m[2] = LIST_2;
#endif
#endif
#ifdef MATRIX
    /* one job per dependency graph: bit i*MODS+j of MATRIX says "mi depends on mj"; LOADABLE bit i
     * says dlopen succeeds for mi */
    for (i = 0; i < MODS; i++) for (j = 0; j < MODS; j++) in_dep.d[i][j] = ((MATRIX) >> (i * MODS + j)) & 1;
    for (i = 0; i < MODS; i++) in_loadable.ok[i] = ((LOADABLE) >> i) & 1;
#endif
    V_ASSUME(in_list.n >= 1 && in_list.n <= NLIST);
    for (i = 0; i < NLIST; i++) { V_ASSUME(in_list.m[i] < MODS); names[i] = (char *)mname(in_list.m[i]); }
    /* closure and the set of modules the configuration needs */
    closure();
    for (i = 0; i < MODS; i++) {
        int nd = 0;
        for (k = 0; k < NLIST; k++) if (k < in_list.n && (in_list.m[k] == i || reach[in_list.m[k]][i])) nd = 1;
#ifdef MATRIX
        needed[i] = nd;
#else
        { _Bool b = nondet_bool(); __CPROVER_assume(b == (nd != 0)); needed[i] = b; }
#endif
    }

    summarise();
    module_init();
    list.used = in_list.n; list.size = NLIST; list.vec = names;
    res = module_load_list(&list);                       /* REAL */

    if (has_cycle() || has_unloadable()) {
        V_ASSERT(res != 0, "C20: a genuine dependency cycle or an unloadable module makes start-up fail");
    } else {
        V_ASSERT(res == 0, "C20: every acyclic graph of loadable modules starts");
        for (i = 0; i < MODS; i++) {
            V_ASSERT(ctor_n[i] == (f_needed[i] ? 1u : 0u), "C20: each needed module is constructed exactly once, others not at all");
            V_ASSERT(post_n[i] == (f_needed[i] ? 1u : 0u), "C20: post-init runs exactly once per module (also when reachable along two paths)");
            for (j = 0; j < MODS; j++)
                if (f_needed[i] && in_dep.d[i][j]) {
                    V_ASSERT(ctor_end[j] != 0 && ctor_end[j] < ctor_end[i], "C20: a module's dependencies are fully constructed before it finishes constructing");
                    V_ASSERT(post_seq[j] < post_seq[i], "C20: post-init runs after those of everything the module depends on");
                }
        }
        closing = 1;
        module_close_all();                              /* REAL */
        V_ASSERT(set_size(&modules) == 0, "C20: every module is unloaded at shutdown");
        for (i = 0; i < MODS; i++) {
            V_ASSERT(dtor_n[i] == (f_needed[i] ? 1u : 0u), "C20: each loaded module is destroyed exactly once");
            for (j = 0; j < MODS; j++)
                if (f_needed[i] && in_dep.d[i][j])
                    V_ASSERT(dtor_seq[i] < dtor_seq[j], "C20: a module's destructor runs before those of the modules it depends on");
        }
    }
    V_CANARY();
}

/* ---------------------------------------------------------------------------------------
 * Per-phase obligations (the whole-run harness above is kept for the thorough tier; its symbolic
 * execution did not finish within an hour for 3 modules).
 *
 * h_module_postinit: the table already holds MODS loaded modules whose `depends` vectors encode an
 * arbitrary dependency matrix; the REAL post-initialisation phase of module_load_list (depth-first
 * walk with loop detection, module_dfs) runs over it.
 * h_module_unload: the table holds MODS loaded modules with depends/rdepends of an arbitrary
 * ACYCLIC matrix; the REAL module_close_all runs.
 */
static struct { struct set_node n; struct module m; char name[3]; } mobj[4];
static const char *depv[4][4], *rdepv[4][8];

static void table_from_matrix(int with_rdepends)
{
    unsigned i, j;
    unsigned char nondet_uchar(void);
    /* one fresh symbol per matrix entry (reads from a havocked object are byte extractions that the
     * symbolic executor handles very slowly) */
    for (i = 0; i < MODS; i++) for (j = 0; j < MODS; j++) in_dep.d[i][j] = nondet_uchar() & 1;
    closure();
    for (i = 0; i < MODS; i++) { needed[i] = 1; in_loadable.ok[i] = 1; }
    summarise();
    modules.compare = set_compare_charp; modules.cleanup = module_cleanup;
    for (i = 0; i < MODS; i++) {
        struct module *m = &mobj[i].m;
        mobj[i].name[0] = 'm'; mobj[i].name[1] = (char)('0' + i); mobj[i].name[2] = '\0';
        m->name = mobj[i].name; m->handle = &stub_handle[i]; m->visited = 0; m->is_backend = 0;
        m->depends.vec = depv[i]; m->depends.size = 4; m->depends.used = 0;
        m->rdepends.vec = rdepv[i]; m->rdepends.size = 8; m->rdepends.used = 0;
        slot[i] = &mobj[i].n;
    }
    /* compact vectors written at CONCRETE positions (position p holds the p-th set bit of the row /
     * column): writes at a symbolic index made the symbolic executor crawl */
    for (i = 0; i < MODS; i++) {
        struct module *m = &mobj[i].m;
        unsigned pos, cnt;
        for (pos = 0; pos < MODS; pos++) {
            /* (an index, not a pointer, is selected: null tests on nested pointer selections send the
             * symbolic executor's value-set simplifier into very long computations) */
            unsigned pick = 0; cnt = 0;
            for (j = 0; j < MODS; j++) if (in_dep.d[i][j]) { if (cnt == pos) pick = j; cnt++; }
            m->depends.vec[pos] = mname(pick); m->depends.used = cnt;
        }
        if (with_rdepends)
            for (pos = 0; pos < MODS; pos++) {
                unsigned pick = 0; cnt = 0;
                for (j = 0; j < MODS; j++) if (in_dep.d[j][i]) { if (cnt == pos) pick = j; cnt++; }
                m->rdepends.vec[pos] = mname(pick); m->rdepends.used = cnt;
            }
    }
    relink(&modules);
}

void h_module_postinit(void)
{
    struct string_vector list;
    unsigned i, j; int res;
    table_from_matrix(0);
    list.used = 0; list.size = 0; list.vec = NULL;
    res = module_load_list(&list);                        /* REAL: nothing to load, then the post-init walk */
    if (has_cycle()) {
        V_ASSERT(res != 0, "C20: a genuine dependency cycle makes start-up fail");
    } else {
        V_ASSERT(res == 0, "C20: every acyclic graph passes the loop detection (a module reachable along two paths is not a loop)");
        for (i = 0; i < MODS; i++) {
            V_ASSERT(post_n[i] == 1, "C20: post-init runs exactly once per module (also when reachable along two paths)");
            for (j = 0; j < MODS; j++)
                if (in_dep.d[i][j]) V_ASSERT(post_seq[j] < post_seq[i], "C20: post-init runs after those of everything the module depends on");
        }
    }
    V_CANARY();
}

void h_module_unload(void)
{
    unsigned i, j;
    table_from_matrix(1);
    V_ASSUME(!has_cycle());
    module_close_all();                                   /* REAL */
    V_ASSERT(set_size(&modules) == 0, "C20: every module is unloaded at shutdown");
    for (i = 0; i < MODS; i++) {
        V_ASSERT(dtor_n[i] == 1, "C20: each loaded module is destroyed exactly once");
        for (j = 0; j < MODS; j++)
            if (in_dep.d[i][j]) V_ASSERT(dtor_seq[i] < dtor_seq[j], "C20: a module's destructor runs before those of the modules it depends on");
    }
    V_CANARY();
}

struct module *model_module_get(const char *name)
{
    unsigned k = key_of(name);
    V_ASSERT(slot[k] != NULL, "harness: a named dependency exists in the table");
    return slot[k] ? set_node_data(slot[k]) : NULL;
}
