/* harness/h_module.c - C20: module load / post-init / unload order (src/module.c)
 *
 * The real module.c is included verbatim.  The dynamic loader is replaced by a model (S4):
 * MODS stub modules m0..m{MODS-1}; module mi's constructor calls the REAL module_depends()
 * for every j with dep[i][j] (a fully symbolic dependency matrix), and constructors, post-init
 * hooks and destructors append to a ghost event log.  The module table is used through the
 * set contract (spec/set_model.h).  LOG_FATAL terminates the process, as in log.c.
 */
#include "vh.h"
#include "src/module.c"
#include <dlfcn.h>

/* The module table through the set contract, instantiated for the key universe of this
 * harness: names "m0".."m3" (set_compare_charp order == index order), so the sorted map is an
 * array of slots.  Same observable behaviour as spec/set_model.h: find/insert(replace with
 * disposal)/remove(with disposal)/first/next in key order, count. */
#ifndef MODS
#define MODS 3
#endif
static struct set_node *slot[4];
static unsigned key_of(const char *name)
{
    V_ASSERT(name[0] == 'm' && name[1] >= '0' && name[1] < '0' + MODS && name[2] == '\0', "harness: module names are m0..m3");
    return (unsigned)(name[1] - '0');
}
static void relink(struct set *set)
{
    unsigned i; struct set_node *prev = NULL;
    set->root = NULL; set->count = 0;
    for (i = 0; i < MODS; i++) if (slot[i]) {
        slot[i]->l = slot[i]->r = NULL; slot[i]->prev = prev; slot[i]->next = NULL;
        if (prev) prev->next = slot[i]; else set->root = slot[i];
        prev = slot[i]; set->count++;
    }
}
struct set_node *set_first(struct set *set) { return set->root; }
void *set_find(struct set *set, const void *datum)
{
    unsigned k;
    if (!set || !set->root || !datum) return NULL;
    k = key_of(*(char *const *)datum);
    return slot[k] ? set_node_data(slot[k]) : NULL;
}
static void dispose(struct set *set, struct set_node *n)
{
    if (set->cleanup) { V_ASSERT(set->cleanup == module_cleanup, "harness: the module table's disposal callback"); module_cleanup(set_node_data(n)); }
    free(n);
}
void set_insert(struct set *set, struct set_node *node)
{
    unsigned k = key_of(((struct module *)set_node_data(node))->name);
    struct set_node *old = slot[k];
    slot[k] = node; relink(set);
    if (old) dispose(set, old);
}
int set_remove(struct set *set, void *datum, int no_dispose)
{
    unsigned k; struct set_node *n;
    if (!set || !set->root) return 0;
    k = key_of(((struct module *)datum)->name);
    n = slot[k];
    if (!n) return 0;
    slot[k] = NULL; relink(set);
    if (!no_dispose) dispose(set, n);
    return 1;
}
void set_clear(struct set *set, int no_dispose)
{
    unsigned i;
    for (i = 0; i < MODS; i++) if (slot[i]) { struct set_node *n = slot[i]; slot[i] = NULL; if (!no_dispose) dispose(set, n); }
    relink(set);
}
int set_compare_charp(const void *a_, const void *b_) { char *const *a = a_, *const *b = b_; return strcasecmp(*a, *b); }

#define NLIST 2

/* ------------------------------------------------------------------ symbolic inputs */
struct { unsigned char d[MODS][MODS]; } in_dep;      /* d[i][j] != 0: mi depends on mj */
struct { unsigned int n; unsigned char m[NLIST]; } in_list;   /* modules named in the configuration, in order */
struct { unsigned char ok[MODS]; } in_loadable;     /* does dlopen succeed for mi? */

struct log_type *log_core;
int clean_exit;

static const char *mname[4] = { "m0", "m1", "m2", "m3" };
static char stub_handle[4];
static unsigned seq;
static unsigned ctor_begin[MODS], ctor_end[MODS], ctor_n[MODS], post_seq[MODS], post_n[MODS], dtor_seq[MODS], dtor_n[MODS];
static int closing;
static int reach[MODS][MODS];       /* transitive closure of the dependency matrix */
static int needed[MODS];            /* named in the configuration or pulled in by others */

static int has_cycle(void) { unsigned i; for (i = 0; i < MODS; i++) if (needed[i] && reach[i][i]) return 1; return 0; }
static int has_unloadable(void) { unsigned i; for (i = 0; i < MODS; i++) if (needed[i] && !in_loadable.ok[i]) return 1; return 0; }

/* ---- the loader model (S4) ---- */
static void ctor(unsigned i)
{
    unsigned j;
    ctor_n[i]++; ctor_begin[i] = ++seq;
    for (j = 0; j < MODS; j++)
        if (in_dep.d[i][j])
            module_depends(mname[j], NULL);            /* REAL */
    ctor_end[i] = ++seq;
}
static void ctor0(const char *n) { (void)n; ctor(0); }
static void ctor1(const char *n) { (void)n; ctor(1); }
static void ctor2(const char *n) { (void)n; ctor(2); }
#if MODS > 3
static void ctor3(const char *n) { (void)n; ctor(3); }
#endif
static void post(unsigned i) { post_n[i]++; post_seq[i] = ++seq; }
static void post0(struct module *m) { (void)m; post(0); }
static void post1(struct module *m) { (void)m; post(1); }
static void post2(struct module *m) { (void)m; post(2); }
#if MODS > 3
static void post3(struct module *m) { (void)m; post(3); }
#endif
static void dtor(unsigned i) { dtor_n[i]++; dtor_seq[i] = ++seq; }
static void dtor0(void) { dtor(0); }
static void dtor1(void) { dtor(1); }
static void dtor2(void) { dtor(2); }
#if MODS > 3
static void dtor3(void) { dtor(3); }
#endif

void *dlopen(const char *file, int flags)
{
    unsigned i;
    (void)flags;
    for (i = 0; i < MODS; i++)
        if (file[0] == 'm' && file[1] == (char)('0' + i) && file[2] == '\0')
            return in_loadable.ok[i] ? &stub_handle[i] : NULL;
    return NULL;
}
char *dlerror(void) { return "model"; }
int dlclose(void *h) { (void)h; return 0; }
void *dlsym(void *h, const char *sym)
{
    unsigned i = (unsigned)((char *)h - stub_handle);
    if (h == NULL || i >= MODS) return NULL;
    if (sym[7] == 'c') {          /* module_constructor */
        switch (i) { case 0: return (void *)ctor0; case 1: return (void *)ctor1; case 2: return (void *)ctor2;
#if MODS > 3
        case 3: return (void *)ctor3;
#endif
        }
    } else if (sym[7] == 'p') {   /* module_post_init */
        switch (i) { case 0: return (void *)post0; case 1: return (void *)post1; case 2: return (void *)post2;
#if MODS > 3
        case 3: return (void *)post3;
#endif
        }
    } else if (sym[7] == 'd') {   /* module_destructor */
        switch (i) { case 0: return (void *)dtor0; case 1: return (void *)dtor1; case 2: return (void *)dtor2;
#if MODS > 3
        case 3: return (void *)dtor3;
#endif
        }
    }
    return NULL;
}

/* LOG_FATAL terminates start-up (log.c: _exit(1)) */
void log_message(struct log_type *type, enum log_severity sev, const char *format, ...)
{
    unsigned i;
    (void)type; (void)format;
    if (sev == LOG_FATAL) {
        V_ASSERT(has_cycle() || has_unloadable(), "C20: an acyclic graph of loadable modules must not abort start-up (e.g. a module reachable along two paths is not a loop)");
        for (i = 0; i < MODS; i++)
            if (reach[i][i]) V_ASSERT(post_n[i] == 0, "C20: start-up aborts before any member of a dependency cycle is post-initialised");
        __CPROVER_assume(0);
    }
}

void h_module_graph(void)
{
    unsigned i, j, k;
    struct string_vector list;
    char *names[NLIST];
    int res;
    V_IN(in_dep); V_IN(in_list); V_IN(in_loadable);
    V_ASSUME(in_list.n >= 1 && in_list.n <= NLIST);
    for (i = 0; i < MODS; i++) in_dep.d[i][i] = in_dep.d[i][i];   /* self-dependency allowed: it is a cycle */
    for (i = 0; i < NLIST; i++) { V_ASSUME(in_list.m[i] < MODS); names[i] = (char *)mname[in_list.m[i]]; }
    /* closure and the set of modules the configuration needs */
    for (i = 0; i < MODS; i++) for (j = 0; j < MODS; j++) reach[i][j] = in_dep.d[i][j] != 0;
    for (k = 0; k < MODS; k++) for (i = 0; i < MODS; i++) for (j = 0; j < MODS; j++) if (reach[i][k] && reach[k][j]) reach[i][j] = 1;
    for (i = 0; i < MODS; i++) needed[i] = 0;
    for (k = 0; k < NLIST; k++) if (k < in_list.n) { needed[in_list.m[k]] = 1; for (j = 0; j < MODS; j++) if (reach[in_list.m[k]][j]) needed[j] = 1; }

    module_init();
    list.used = in_list.n; list.size = NLIST; list.vec = names;
    res = module_load_list(&list);                       /* REAL */

    if (has_cycle() || has_unloadable()) {
        V_ASSERT(res != 0, "C20: a genuine dependency cycle or an unloadable module makes start-up fail");
    } else {
        V_ASSERT(res == 0, "C20: every acyclic graph of loadable modules starts");
        for (i = 0; i < MODS; i++) {
            V_ASSERT(ctor_n[i] == (needed[i] ? 1u : 0u), "C20: each needed module is constructed exactly once, others not at all");
            V_ASSERT(post_n[i] == (needed[i] ? 1u : 0u), "C20: post-init runs exactly once per module (also when reachable along two paths)");
            for (j = 0; j < MODS; j++)
                if (needed[i] && in_dep.d[i][j]) {
                    V_ASSERT(ctor_end[j] != 0 && ctor_end[j] < ctor_end[i], "C20: a module's dependencies are fully constructed before it finishes constructing");
                    V_ASSERT(post_seq[j] < post_seq[i], "C20: post-init runs after those of everything the module depends on");
                }
        }
        closing = 1;
        module_close_all();                              /* REAL */
        V_ASSERT(set_size(&modules) == 0, "C20: every module is unloaded at shutdown");
        for (i = 0; i < MODS; i++) {
            V_ASSERT(dtor_n[i] == (needed[i] ? 1u : 0u), "C20: each loaded module is destroyed exactly once");
            for (j = 0; j < MODS; j++)
                if (needed[i] && in_dep.d[i][j])
                    V_ASSERT(dtor_seq[i] < dtor_seq[j], "C20: a module's destructor runs before those of the modules it depends on");
        }
    }
    V_CANARY();
}
