/* harness/h_misc.c - obligations on modules/iauth_misc.c (C12, C13) */
#include "vh.h"
#include "spec/misc.contracts.h"
/* The real translation unit is included verbatim (found in the staged copy of /repo through
 * -I) so that the contract of the file-static irc_pton_ip4 in spec/misc.contracts.h attaches
 * to its definition.  Nothing is dropped or renamed. */
#include "modules/iauth_misc.c"

irc_inaddr in_a, in_m;
unsigned int in_bits;

/* C13 clause 1: for every address, mask address and prefix length (any unsigned value:
 * the rule compiler can hand over lengths above 128) */
void h_check_mask(void)
{
    unsigned int r;
    V_IN(in_a); V_IN(in_m); V_IN(in_bits);
    r = irc_check_mask(&in_a, &in_m, in_bits);
    V_ASSERT((r != 0) == (spec_prefix_equal(&in_a, &in_m, in_bits) != 0),
             "C13: irc_check_mask succeeds exactly when the leading <bits> bits are equal");
    V_CANARY();
}

/* ---------------------------------------------------------------------------------------
 * C12: print -> parse round trip.  Sharded by -DZP=<mask>: bit i set <=> group i is zero
 * (the abstraction that drives the printer); non-zero groups stay fully symbolic, so the
 * union of the 256 shards (+ the IPv4 forms, selected inside by the address itself) is all
 * 2^128 addresses.  -DDIGITS=k additionally restricts every non-zero group to k hex digits
 * (quick slice; makes every text position concrete).
 */
#ifndef ZP
#define ZP 0
#endif
struct { char s[IRC_NTOP_MAX]; } in_text;

static int shard_ok(const irc_inaddr *a)
{
    unsigned i;
    for (i = 0; i < 8; i++) {
        unsigned v = ntohs(a->in6[i]);
        if ((v == 0) != (((ZP) >> i) & 1))
            return 0;
#ifdef V4MAPPED
        if (i == 5 && v != 0xffff) return 0;
#else
        if (i == 5 && (((ZP) & 0x5f) == 0x1f) && v == 0xffff) return 0;   /* covered by the V4MAPPED shard */
#endif
#ifdef DIGITS
        if (v != 0 && !(v >= (1u << (4 * (DIGITS - 1))) && (DIGITS == 4 || v < (1u << (4 * DIGITS)))))
            return 0;
#endif
    }
    return 1;
}

void h_ntop_roundtrip(void)
{
    char buf[IRC_NTOP_MAX], buf2[IRC_NTOP_MAX];
    irc_inaddr back, want, ref;
    unsigned int n, r, n2, i;

    V_IN(in_a);
    V_ASSUME(shard_ok(&in_a));
    ctype_init();
    for (i = 0; i < IRC_NTOP_MAX; i++) buf[i] = 'X';
    n = irc_ntop(buf, sizeof(buf), &in_a);
    V_ASSERT(n < IRC_NTOP_MAX, "C12: the text fits the documented buffer size (IRC_NTOP_MAX)");
    V_ASSERT(n > 0 && buf[n < IRC_NTOP_MAX ? n : 0] == '\0', "C12: the text is NUL-terminated at the returned length");
    V_ASSERT(buf[0] != ':', "C12: the text never begins with ':'");
    spec_canon(&want, &in_a);
    r = irc_pton(&back, NULL, buf, 0);
    V_ASSERT(r == n, "C12: the daemon's own parser accepts the whole text it printed");
    V_ASSERT(spec_addr_eq(&back, &want), "C12: the parsed text denotes the same address (IPv4-compatible canonicalised to IPv4-mapped)");
#ifndef C12_CORE_ONLY
    V_ASSERT(spec_parse_addr(buf, IRC_NTOP_MAX, &ref) == 1, "C12: the text is accepted by the standard parser (RFC 4291 reference parser)");
    V_ASSERT(spec_addr_eq(&ref, &want), "C12: the standard parser reads the same address");
    n2 = irc_ntop(buf2, sizeof(buf2), &back);
    V_ASSERT(n2 == n, "C12: parse-then-print is idempotent (length)");
    for (i = 0; i < IRC_NTOP_MAX; i++)
        if (i <= n && i <= n2)
            V_ASSERT(buf2[i] == buf[i], "C12: parse-then-print is idempotent (text)");
#endif
    V_CANARY();
}

/* ---------------------------------------------------------------------------------------
 * C13 / C12 support: the static dotted-quad parser against (a) its frame-only contract
 * (DFCC enforce: writes nothing but *output and *pbits, reads inside the string only) and
 * (b) the executable contract stubs/pton_ip4_contract.c that the C12 IPv4 shards rely on.
 */
#include "spec/ip4_quad_spec.h"
struct { char s[17]; } in_q;
int in_have_bits, in_trailing;

void h_pton_ip4_quad(void)
{
    unsigned int bits = 77, r, want;
    uint32_t out = 0, ip = 0;
    V_IN(in_q); V_IN(in_have_bits); V_IN(in_trailing);
    V_ASSUME(in_q.s[16] == '\0');
    want = ip4_quad_spec(in_q.s, &ip);
    r = irc_pton_ip4(in_q.s, in_have_bits ? &bits : NULL, &out, in_trailing);
    if (want) {
        V_ASSERT(r == want, "irc_pton_ip4 consumes exactly a plain canonical dotted quad");
        V_ASSERT(out == ip, "irc_pton_ip4 stores the quad's address in network byte order");
        V_ASSERT(!in_have_bits || bits == 32, "irc_pton_ip4 reports 32 bits for a plain quad");
    }
    V_ASSERT(r <= 16, "irc_pton_ip4 never claims to have read past the terminator");
    V_CANARY();
}

/* ---------------------------------------------------------------------------------------
 * C13: CIDR and wildcard texts yield the documented prefix length and network bits.
 * The text is the printer's own rendering of a (sharded like C12) followed by "/n", or the
 * first k groups followed by ":*", or "*".  irc_pton(.., &bits, ..) must consume all of it.
 */
unsigned int in_plen;       /* prefix length 0..128 */
unsigned int in_wgroups;    /* wildcard: number of leading groups kept, 1..7 */

void h_pton_cidr(void)
{
    char buf[IRC_NTOP_MAX + 8];
    irc_inaddr back, want;
    unsigned int n, r, bits = 999, i, p;
    V_IN(in_a); V_IN(in_plen);
    V_ASSUME(shard_ok(&in_a));
    V_ASSUME(!spec_is_ipv4(&in_a));            /* the dotted-quad /n form is h_pton_cidr4 */
    V_ASSUME(in_plen <= 128);
    ctype_init();
    n = irc_ntop(buf, IRC_NTOP_MAX, &in_a);
    V_ASSUME(n < IRC_NTOP_MAX);                /* C12 */
    p = n;
    buf[p++] = '/';
    {   /* decimal rendering without division (n <= 128) */
        unsigned h = in_plen >= 100 ? 1 : 0, rem = in_plen - 100 * h, t = 0, k;
        for (k = 0; k < 9; k++) if (rem >= 10) { rem -= 10; t++; }
        if (h) buf[p++] = '1';
        if (h || t) buf[p++] = (char)('0' + t);
        buf[p++] = (char)('0' + rem);
    }
    buf[p] = '\0';
    r = irc_pton(&back, &bits, buf, 0);
    V_ASSERT(r == p, "C13: a CIDR text x:y::/n is accepted as a whole");
    V_ASSERT(bits == in_plen, "C13: ... with the documented prefix length");
    spec_canon(&want, &in_a);
    V_ASSERT(spec_addr_eq(&back, &want), "C13: ... and the network bits written");
    (void)i;
    V_CANARY();
}

void h_pton_wild(void)
{
    char buf[48];
    irc_inaddr back;
    unsigned int r, bits = 999, i, p = 0, k;
    static const char hexd[] = "0123456789abcdef";
    V_IN(in_a); V_IN(in_wgroups);
#ifdef WG
    in_wgroups = WG;                 /* one job per number of groups written */
#endif
    V_ASSUME(in_wgroups >= 1 && in_wgroups <= 7);
    ctype_init();
    for (k = 0; k < 7; k++) {
        if (k < in_wgroups) {
            unsigned v = ntohs(in_a.in6[k]);
            if (v >= 0x1000) buf[p++] = hexd[v >> 12];
            if (v >= 0x100) buf[p++] = hexd[(v >> 8) & 15];
            if (v >= 0x10) buf[p++] = hexd[(v >> 4) & 15];
            buf[p++] = hexd[v & 15];
            buf[p++] = ':';
        }
    }
    buf[p++] = '*'; buf[p] = '\0';
    r = irc_pton(&back, &bits, buf, 0);
    V_ASSERT(r == p, "C13: a wildcard text x:y:* is accepted as a whole");
    V_ASSERT(bits == 16 * in_wgroups, "C13: ... with 16 bits per group written");
    for (i = 0; i < 8; i++)
        V_ASSERT(back.in6[i] == (i < in_wgroups ? in_a.in6[i] : 0), "C13: ... the groups written are the network bits, the rest is zero");
    /* "*" alone */
    buf[0] = '*'; buf[1] = '\0'; bits = 999;
    r = irc_pton(&back, &bits, buf, 0);
    V_ASSERT(r == 1 && bits == 0, "C13: '*' matches everything (0 bits)");
    V_CANARY();
}
