/* harness/h_misc.c - obligations on modules/iauth_misc.c (C12, C13) */
#include "vh.h"
#include "spec/misc.contracts.h"

irc_inaddr in_a, in_m;
unsigned int in_bits;

/* C13 clause 1: for every address, mask address and prefix length (any unsigned value:
 * the rule compiler can hand over lengths above 128) */
void h_check_mask(void)
{
    unsigned int r;
    V_IN(in_a); V_IN(in_m); V_IN(in_bits);
    r = irc_check_mask(&in_a, &in_m, in_bits);
    V_ASSERT((r != 0) == (spec_prefix_equal(&in_a, &in_m, in_bits) != 0),
             "C13: irc_check_mask succeeds exactly when the leading <bits> bits are equal");
    V_CANARY();
}
