/* harness/h_iauth_io.c - the IAuth line protocol at byte level:
 *   C09  iauth_send: every line is one well-formed, correctly addressed message
 *   C04  routing tags: iauth_routing / iauth_validate_request name exactly one instance
 *   C08  iauth_read: tokenizer and dispatch for every input line                          */
#include "vh.h"
#include "units/u_iauth.c"
#include "spec/iauth_model.h"
#include "spec/set_model.h"
#include "harness/iauth_common.h"

extern char g_out[]; extern unsigned int g_out_len, g_out_flushes, g_other_stream_writes;

/* ------------------------------------------------------------------ C09: iauth_send */
int in_kind;
struct { char s[12]; } in_arg0, in_arg1;
int in_with_req;

static unsigned put_str(char *dst, unsigned pos, const char *s, unsigned max)
{
    unsigned i;
    for (i = 0; i < max && s[i]; i++) dst[pos++] = s[i];
    return pos;
}
#ifndef KIND
#define KIND 0
#endif
/* the format strings of every iauth_send() call site in the modules; one job per format */
#if KIND == 0
#define F "o %s"
#elif KIND == 1
#define F "U %s"
#elif KIND == 2
#define F "u %s"
#elif KIND == 3
#define F "N %s"
#elif KIND == 4
#define F "I %s"
#elif KIND == 5
#define F "M :%s"
#elif KIND == 6
#define F "C :%s"
#elif KIND == 7
#define F "k :%s"
#elif KIND == 8
#define F "R %s %s"
#elif KIND == 9
#define F "R %s"
#elif KIND == 10
#define F "D %s"
#elif KIND == 11
#define F "D"
#elif KIND == 12
#define F "d"
#elif KIND == 13
#define F "> :%s"
#elif KIND == 14
#define F "G %d"
#elif KIND == 15
#define F "A %s :%s"
#elif KIND == 16
#define F "S %s :%s"
#elif KIND == 17
#define F "X %s %s :%s"
#elif KIND == 18
#define F "V :%s %s"
#elif KIND == 19
#define F "a"
#elif KIND == 20
#define F "s"
#else
#define F "O S%s"
#endif

void h_send(void)
{
    char want[128]; unsigned w = 0, i, nl = 0;
    const char *f;
    req = mk_request();
    V_IN(in_arg0); V_IN(in_arg1);
    in_kind = KIND; in_with_req = (KIND < 13);
    in_arg0.s[11] = 0; in_arg1.s[11] = 0;
    /* arguments are slices of an input line: they contain no newline (tokenizer, C08) */
    for (i = 0; i < 12; i++) V_ASSUME(in_arg0.s[i] != '\n' && in_arg1.s[i] != '\n');
    for (i = 0; i < IRC_NTOP_MAX; i++) V_ASSUME(req->text_addr[i] != '\n' && req->text_addr[i] != ' ');
    V_ASSUME(req->text_addr[0] != '\0');
#ifdef ADDR_MAX
    for (i = ADDR_MAX; i < IRC_NTOP_MAX; i++) req->text_addr[i] = '\0';     /* bounded stand-in: address text of <= ADDR_MAX bytes */
#endif
#ifdef SYM_PART
    /* one component of the prefix symbolic at a time (quick tier); all three together: thorough */
    { int c0 = req->client; unsigned short p0 = req->remote_port; char a0[IRC_NTOP_MAX];
      for (i = 0; i < IRC_NTOP_MAX; i++) a0[i] = req->text_addr[i];
      req->client = 7; req->remote_port = 1234;
      req->text_addr[0] = '1'; req->text_addr[1] = '.'; req->text_addr[2] = '2'; for (i = 3; i < IRC_NTOP_MAX; i++) req->text_addr[i] = '\0';
      if (SYM_PART == 1) req->client = c0;
      if (SYM_PART == 2) req->remote_port = p0;
      if (SYM_PART == 3) for (i = 0; i < IRC_NTOP_MAX; i++) req->text_addr[i] = a0[i];
#ifdef SYM_DIGITS
      /* one job per printed length (ids of 1-7 digits, ports of 1-5 digits, address texts of 1-8 bytes) */
      {
          static const long lo[8] = { 0, 0, 10, 100, 1000, 10000, 100000, 1000000 }, hi[8] = { 0, 9, 99, 999, 9999, 99999, 999999, 9999999 };
          long lo_ = SYM_DIGITS == 1 ? 0 : SYM_DIGITS == 2 ? 10 : SYM_DIGITS == 3 ? 100 : SYM_DIGITS == 4 ? 1000 : SYM_DIGITS == 5 ? 10000 : SYM_DIGITS == 6 ? 100000 : 1000000;
          long hi_ = SYM_DIGITS == 1 ? 9 : SYM_DIGITS == 2 ? 99 : SYM_DIGITS == 3 ? 999 : SYM_DIGITS == 4 ? 9999 : SYM_DIGITS == 5 ? 99999 : SYM_DIGITS == 6 ? 999999 : 9999999;
          (void)lo; (void)hi;
          if (SYM_PART == 1) V_ASSUME(req->client >= lo_ && req->client <= hi_);
          if (SYM_PART == 2) V_ASSUME((long)req->remote_port >= lo_ && (long)req->remote_port <= hi_);
          if (SYM_PART == 3) { for (i = 0; i < 8; i++) if (i < SYM_DIGITS) V_ASSUME(req->text_addr[i] != '\0'); req->text_addr[SYM_DIGITS] = '\0'; }
      }
#endif
    }
#endif
#ifdef CONCRETE_PREFIX
    /* the <id> <address> <port> prefix is proved for all values in the job with the shortest
     * format ("d"); the other formats are proved with one concrete prefix and symbolic arguments */
    req->client = 7; req->remote_port = 1234;
    req->text_addr[0] = '1'; req->text_addr[1] = '.'; req->text_addr[2] = '2'; req->text_addr[3] = '\0';
#endif
    f = F;
    g_out_len = 0;
#if KIND == 14
    iauth_send(NULL, F, 7);
#elif KIND == 17
    iauth_send(NULL, F, in_arg0.s, in_arg1.s, "q");
#elif KIND < 13
    iauth_send(req, F, in_arg0.s, in_arg1.s);
#else
    iauth_send(NULL, F, in_arg0.s, in_arg1.s);
#endif

    /* the line, read back as the server would: <word> <id> <addr> <port><rest>\n */
    if (in_with_req) {
        unsigned p = 0, nd = 0; long v = 0; int neg = 0, ok = 1;
        ok = ok && g_out[p++] == f[0] && g_out[p++] == ' ';
        if (g_out[p] == '-') { neg = 1; p++; }
        for (i = 0; i < 11; i++) if (g_out[p] >= '0' && g_out[p] <= '9') { v = v * 10 + (g_out[p] - '0'); p++; nd++; }
        ok = ok && nd > 0 && (neg ? -v : v) == (long)req->client;
        ok = ok && g_out[p++] == ' ';
        for (i = 0; i < IRC_NTOP_MAX; i++) if (req->text_addr[i] != '\0' && ok) { ok = ok && g_out[p] == req->text_addr[i]; p++; } else break;
        ok = ok && g_out[p++] == ' ';
        v = 0; nd = 0;
        for (i = 0; i < 6; i++) if (g_out[p] >= '0' && g_out[p] <= '9') { v = v * 10 + (g_out[p] - '0'); p++; nd++; }
        ok = ok && nd > 0 && v == (long)req->remote_port;
        V_ASSERT(ok, "C09: a client-directed line starts with <type> <the client's id> <its address text> <the announced port>");
        /* the rest of the format follows verbatim, %s replaced by the arguments */
        w = 0;
        for (i = 1; f[i]; i++) {
            if (f[i] == '%' && f[i + 1] == 's') { w = put_str(want, w, (in_kind == 8 && i > 3) ? in_arg1.s : in_arg0.s, 12); i++; }
            else want[w++] = f[i];
        }
        want[w++] = '\n';
        V_ASSERT(g_out_len == p + w, "C09: nothing but the arguments follows the address prefix (length)");
        for (i = 0; i < 40; i++)
            if (i < w && p + i < 128) V_ASSERT(g_out[p + i] == want[i], "C09: the arguments follow verbatim");
    }
    V_ASSERT(g_out_len < 128, "C09: a line built from short arguments is short");
    for (i = 0; i < 128; i++) if (i < g_out_len && g_out[i] == '\n') nl++;
    V_ASSERT(g_out_len > 1 && g_out[g_out_len - 1] == '\n' && nl == 1, "C09: exactly one line is written - the only newline is the last byte");
    V_ASSERT(g_out[0] == f[0] && (g_out[1] == ' ' || g_out[1] == '\n'), "C09: the line starts with the one-letter message type");
    V_ASSERT(g_out_flushes == 1 && g_other_stream_writes == 0, "C09: the line is flushed to the server channel");
    V_CANARY();
}

/* ------------------------------------------------------------------ C04: routing tags */
int in_client_a, in_client_b; unsigned int in_serial_a, in_serial_b;
struct iauth_request in_other_req;

void h_routing_roundtrip(void)
{
    char tag[ROUTINGLEN];
    struct iauth_request old;          /* the instance the tag was issued for */
    struct iauth_request *r;
    struct set_node *n2;
    struct iauth_request *o;
    int rc;
    req = mk_request();
    V_IN(in_client_a); V_IN(in_serial_a); V_IN(in_other_req);
    /* table: the current instance `req` and one other client */
    n2 = malloc(sizeof(struct set_node) + sizeof(struct iauth_request));
    V_ASSUME(n2 != NULL);
    o = set_node_data(n2); *o = in_other_req; o->timeout = NULL;
    o->data.compare = set_compare_voidp; o->data.cleanup = NULL; o->data.root = NULL; o->data.count = 0;
    V_ASSUME(o->client != req->client);
    iauth_reqs = set_alloc(set_compare_int, iauth_req_cleanup);
    set_insert(iauth_reqs, set_node(req));
    set_insert(iauth_reqs, n2);
    memset(&old, 0, sizeof(old));
    old.client = in_client_a; old.serial = in_serial_a;
    V_ASSUME(old.client >= 0);         /* ircd's ids are non-negative (a '-' would not survive %x) */
    rc = iauth_routing(&old, tag, sizeof(tag));
    V_ASSERT(rc == 0, "C04: a routing tag always fits ROUTINGLEN");
    r = iauth_validate_request(tag);
    if (old.client == req->client && old.serial == req->serial)
        V_ASSERT(r == req, "C04: the tag issued for a client's current instance finds it");
    else if (old.client == o->client && old.serial == o->serial)
        V_ASSERT(r == o, "C04: the tag issued for a client's current instance finds it");
    else
        V_ASSERT(r == NULL, "C04: a tag of a departed instance (stale serial after id reuse) or unknown id names nobody");
    V_CANARY();
}

struct { char s[20]; } in_tag;
void h_validate_any(void)
{
    struct iauth_request *r;
    req = mk_request();
    V_IN(in_tag);
    in_tag.s[19] = '\0';
    iauth_reqs = set_alloc(set_compare_int, iauth_req_cleanup);
    set_insert(iauth_reqs, set_node(req));
    r = iauth_validate_request(in_tag.s);
    V_ASSERT(r == NULL || r == req, "C04/C08: any tag text yields the live request or nothing, without memory errors");
    V_CANARY();
}

/* ------------------------------------------------------------------ C08: iauth_read
 * libevent's buffering is outside (S3): evbuffer_read returns any int, evbuffer_readln hands
 * out one fresh NUL-terminated line without '\n' (any content up to LINE_MAX bytes) and then
 * NULL.  The per-command handlers are replaced by their *preconditions*: model_dispatch
 * asserts what each real handler dereferences without checking. */
#ifndef LINE_MAX_V
#define LINE_MAX_V 16
#endif
struct { char s[LINE_MAX_V + 1]; } in_line;
int in_readres;
int in_found;             /* does the id name a live request? */
short in_events;
int in_two;
static char *model_readln2(size_t *n);
static int lines_given;
static char *the_line;
static unsigned dispatched;
static char disp_cmd; static struct iauth_request *disp_req; static int disp_argc;

int evbuffer_read(struct evbuffer *buffer, evutil_socket_t fd, int howmuch) { (void)buffer; (void)fd; (void)howmuch; return in_readres; }
char *evbuffer_readln(struct evbuffer *buffer, size_t *n_read_out, enum evbuffer_eol_style eol_style)
{
    unsigned i, n = 0;
    (void)buffer; (void)eol_style;
    if (in_two) return model_readln2(n_read_out);
    if (lines_given++) return NULL;
    the_line = malloc(LINE_MAX_V + 1);
    __CPROVER_assume(the_line != NULL);
    for (i = 0; i < LINE_MAX_V + 1; i++) the_line[i] = in_line.s[i];
    for (i = 0; i < LINE_MAX_V + 1; i++) if (n == i && the_line[i] != '\0') n++;
    *n_read_out = n;
    return the_line;
}

static int inside_line(const char *p)
{
    if (in_two) return p != NULL;
    return p != NULL && __CPROVER_same_object(p, the_line) && __CPROVER_POINTER_OFFSET(p) <= LINE_MAX_V;
}

void model_dispatch(char cmd, struct iauth_request *r, int id, int argc, char **argv, const char *a1)
{
    int i;
    (void)id;
    dispatched++; disp_cmd = cmd; disp_req = r; disp_argc = argc;
    /* what the real handlers dereference unconditionally */
    if (cmd == 'N' || cmd == 'n' || cmd == 'P')
        V_ASSERT(a1 != NULL && inside_line(a1), "C08: a hostname / nick / password handler is entered with its parameter present (no NULL dereference on a truncated line)");
    if (cmd == 'u')
        V_ASSERT(a1 == NULL || inside_line(a1), "C08: the ident parameter, if any, lies inside the line");
    if (argc >= 0) {
        V_ASSERT(argc <= 16, "C08: at most 16 arguments");
        for (i = 0; i < 16; i++)
            if (i < argc) V_ASSERT(inside_line(argv[i]), "C08: every argument handed to a handler lies inside the line buffer");
    }
    if (cmd != 'C' && cmd != 'M' && cmd != 'X' && cmd != 'x' && cmd != '?' && cmd != 'E')
        V_ASSERT(r == NULL || r == req, "C01: a per-client handler only ever sees the live request of that id");
}

void h_read(void)
{
    unsigned i;
    struct set_node *node;
    req = mk_request();
    V_IN(in_line); V_IN(in_readres); V_IN(in_found); V_IN(in_events);
    in_line.s[LINE_MAX_V] = '\0';
    for (i = 0; i < LINE_MAX_V; i++) V_ASSUME(in_line.s[i] != '\n');     /* the line splitter's contract */
    iauth_reqs = set_alloc(set_compare_int, iauth_req_cleanup);
    if (in_found) set_insert(iauth_reqs, set_node(req));
    clean_exit = 0;
    iauth_read(0, in_events, NULL);
    if (!(in_events & EV_READ)) {
        V_ASSERT(dispatched == 0 && clean_exit == 0, "no read event, nothing happens");
    } else if (in_readres == 0) {
        V_ASSERT(clean_exit == 1 && G.loopbreaks == 1 && dispatched == 0, "C08: end of input requests a clean exit of the event loop");
    } else if (in_readres < 0) {
        V_ASSERT(clean_exit == 0 && G.loopbreaks == 0 && dispatched == 0, "C08: a read error changes nothing");
    } else {
        V_ASSERT(dispatched <= 1, "C08: one line, at most one handler");
        if (dispatched && disp_cmd != 'C' && disp_cmd != 'M' && disp_cmd != 'X' && disp_cmd != 'x' && disp_cmd != '?' && disp_cmd != 'E' && disp_req != NULL)
            V_ASSERT(in_found && disp_req == req, "C01: lines for ids without a live request are dropped before dispatch");
        V_ASSERT(clean_exit == 0 && G.loopbreaks == 0, "C08: data lines never stop the loop");
    }
    V_CANARY();
}

/* ------------------------------------------------------------------ C08/C09: over-long lines
 * An echoed reply text can be far longer than the 1024-byte line buffer of iauth_send (the
 * server relays what a service said).  With a 1100-byte argument the formatter must stay
 * inside its buffer (pointer checks) and still write exactly one line of at most 1024 bytes. */
static char long_arg[1101];
void h_send_overlong(void)
{
    unsigned i, nl = 0;
    req = mk_request();
    for (i = 0; i < 1100; i++) long_arg[i] = 'A';
    long_arg[1100] = '\0';
    req->client = 7; req->remote_port = 1234;
    req->text_addr[0] = '1'; req->text_addr[1] = '.'; req->text_addr[2] = '2'; req->text_addr[3] = '\0';
    g_out_len = 0;
    iauth_send(req, "k :%s", long_arg);
    V_ASSERT(g_out_len >= 2 && g_out_len <= 1025, "C08: an over-long message is truncated to the line buffer, never written past it");
    V_ASSERT(g_out[g_out_len - 1] == '\n', "C09: the (truncated) line still ends in one newline");
    for (i = 0; i < 1200; i++) if (i + 1 < g_out_len && g_out[i] == '\n') nl++;
    V_ASSERT(nl == 0, "C09: no newline inside the line");
    V_ASSERT(g_out[0] == 'k' && g_out[1] == ' ' && g_out[2] == '7' && g_out[3] == ' ', "C09: truncation cannot drop the addressing prefix");
    V_CANARY();
}


/* ------------------------------------------------------------------ C08/C07: junk lines do not
 * change the treatment of the well-formed lines that follow in the same read.  Two lines arrive in
 * one chunk: a line for an id without a live request (dropped), then a hurry-up for the live id. */
static int lines2;
static char *model_readln2(size_t *n)
{
    char *l;
    if (lines2 == 0) { l = malloc(4); __CPROVER_assume(l != NULL); l[0] = '9'; l[1] = ' '; l[2] = 'T'; l[3] = 0; *n = 3; }
    else if (lines2 == 1) { l = malloc(4); __CPROVER_assume(l != NULL); l[0] = '7'; l[1] = ' '; l[2] = 'H'; l[3] = 0; *n = 3; }
    else l = NULL;
    lines2++;
    return l;
}
void h_read_two_lines(void)
{
    req = mk_request();
    req->client = 7;
    iauth_reqs = set_alloc(set_compare_int, iauth_req_cleanup);
    set_insert(iauth_reqs, set_node(req));
    in_readres = 8; in_events = EV_READ; in_two = 1; clean_exit = 0;
    the_line = NULL;
    iauth_read(0, in_events, NULL);
    V_ASSERT(dispatched == 1 && disp_cmd == 'H' && disp_req == req, "C08/C07: a line for an unknown id is dropped and the next line of the same read is still handled");
    V_CANARY();
}
