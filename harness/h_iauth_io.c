/* harness/h_iauth_io.c - the IAuth line protocol at byte level:
 *   C09  iauth_send: every line is one well-formed, correctly addressed message
 *   C04  routing tags: iauth_routing / iauth_validate_request name exactly one instance
 *   C08  iauth_read: tokenizer and dispatch for every input line                          */
#include "vh.h"
#include "units/u_iauth.c"
#include "spec/iauth_model.h"
#include "spec/set_model.h"
#include "harness/iauth_common.h"

extern char g_out[]; extern unsigned int g_out_len, g_out_flushes, g_other_stream_writes;

/* ------------------------------------------------------------------ C09: iauth_send */
int in_kind;
struct { char s[12]; } in_arg0, in_arg1;
int in_with_req;

static unsigned put_str(char *dst, unsigned pos, const char *s, unsigned max)
{
    unsigned i;
    for (i = 0; i < max && s[i]; i++) dst[pos++] = s[i];
    return pos;
}
static unsigned put_dec(char *dst, unsigned pos, long v)
{
    char tmp[24]; int n = 0; unsigned long u = (unsigned long)v;
    if (v < 0) { dst[pos++] = '-'; u = 0ul - u; }
    do { tmp[n++] = (char)('0' + (int)(u % 10)); u /= 10; } while (u && n < 24);
    while (n > 0) dst[pos++] = tmp[--n];
    return pos;
}

void h_send(void)
{
    static const char *const fmts[] = { "o %s", "U %s", "u %s", "N %s", "I %s", "M :%s", "C :%s", "k :%s", "R %s %s", "R %s", "D %s", "D", "d",
                                        "> :%s", "G %d", "A %s :%s", "S %s :%s", "X %s %s :%s", "V :%s %s", "a", "s", "O S%s" };
    char want[128]; unsigned w = 0, i, nl = 0;
    const char *f;
    req = mk_request();
    V_IN(in_kind); V_IN(in_arg0); V_IN(in_arg1); V_IN(in_with_req);
    V_ASSUME(in_kind >= 0 && in_kind < 22);
    in_arg0.s[11] = 0; in_arg1.s[11] = 0;
    /* arguments are slices of an input line: they contain no newline (tokenizer, C08) */
    for (i = 0; i < 12; i++) V_ASSUME(in_arg0.s[i] != '\n' && in_arg1.s[i] != '\n');
    for (i = 0; i < IRC_NTOP_MAX; i++) V_ASSUME(req->text_addr[i] != '\n' && req->text_addr[i] != ' ');
    V_ASSUME(req->text_addr[0] != '\0');
    f = fmts[in_kind];
    if (in_kind < 13) V_ASSUME(in_with_req); else V_ASSUME(!in_with_req);
    g_out_len = 0;
    if (in_kind == 14) iauth_send(NULL, f, 7);
    else if (in_kind == 17) iauth_send(NULL, f, in_arg0.s, in_arg1.s, "q");
    else iauth_send(in_with_req ? req : NULL, f, in_arg0.s, in_arg1.s);

    /* expected line, written from the protocol: <word> <id> <addr> <port><rest>\n */
    if (in_with_req) {
        want[w++] = f[0]; want[w++] = ' ';
        w = put_dec(want, w, req->client); want[w++] = ' ';
        w = put_str(want, w, req->text_addr, IRC_NTOP_MAX); want[w++] = ' ';
        w = put_dec(want, w, req->remote_port);
        /* rest of the format after the first word */
        for (i = 1; f[i]; i++) {
            if (f[i] == '%' && f[i + 1] == 's') { w = put_str(want, w, (f[i - 1] == ' ' && i > 3 && in_kind == 8) ? in_arg1.s : in_arg0.s, 12); i++; }
            else want[w++] = f[i];
        }
        want[w++] = '\n';
        V_ASSERT(g_out_len == w, "C09: a client-directed line is <word> <id> <address text> <port><arguments> and one newline (length)");
        for (i = 0; i < 128; i++)
            if (i < w && i < g_out_len) V_ASSERT(g_out[i] == want[i], "C09: a client-directed line carries the client's id, its address text and the announced port, then the arguments");
    }
    V_ASSERT(g_out_len < 128, "C09: a line built from short arguments is short");
    for (i = 0; i < 128; i++) if (i < g_out_len && g_out[i] == '\n') nl++;
    V_ASSERT(g_out_len > 1 && g_out[g_out_len - 1] == '\n' && nl == 1, "C09: exactly one line is written - the only newline is the last byte");
    V_ASSERT(g_out[0] == f[0] && (g_out[1] == ' ' || g_out[1] == '\n'), "C09: the line starts with the one-letter message type");
    V_ASSERT(g_out_flushes == 1 && g_other_stream_writes == 0, "C09: the line is flushed to the server channel");
    V_CANARY();
}

/* ------------------------------------------------------------------ C04: routing tags */
int in_client_a, in_client_b; unsigned int in_serial_a, in_serial_b;
struct iauth_request in_other_req;

void h_routing_roundtrip(void)
{
    char tag[ROUTINGLEN];
    struct iauth_request old;          /* the instance the tag was issued for */
    struct iauth_request *r;
    struct set_node *n2;
    struct iauth_request *o;
    int rc;
    req = mk_request();
    V_IN(in_client_a); V_IN(in_serial_a); V_IN(in_other_req);
    /* table: the current instance `req` and one other client */
    n2 = malloc(sizeof(struct set_node) + sizeof(struct iauth_request));
    V_ASSUME(n2 != NULL);
    o = set_node_data(n2); *o = in_other_req; o->timeout = NULL;
    o->data.compare = set_compare_voidp; o->data.cleanup = NULL; o->data.root = NULL; o->data.count = 0;
    V_ASSUME(o->client != req->client);
    iauth_reqs = set_alloc(set_compare_int, iauth_req_cleanup);
    set_insert(iauth_reqs, set_node(req));
    set_insert(iauth_reqs, n2);
    memset(&old, 0, sizeof(old));
    old.client = in_client_a; old.serial = in_serial_a;
    V_ASSUME(old.client >= 0);         /* ircd's ids are non-negative (a '-' would not survive %x) */
    rc = iauth_routing(&old, tag, sizeof(tag));
    V_ASSERT(rc == 0, "C04: a routing tag always fits ROUTINGLEN");
    r = iauth_validate_request(tag);
    if (old.client == req->client && old.serial == req->serial)
        V_ASSERT(r == req, "C04: the tag issued for a client's current instance finds it");
    else if (old.client == o->client && old.serial == o->serial)
        V_ASSERT(r == o, "C04: the tag issued for a client's current instance finds it");
    else
        V_ASSERT(r == NULL, "C04: a tag of a departed instance (stale serial after id reuse) or unknown id names nobody");
    V_CANARY();
}

struct { char s[20]; } in_tag;
void h_validate_any(void)
{
    struct iauth_request *r;
    req = mk_request();
    V_IN(in_tag);
    in_tag.s[19] = '\0';
    iauth_reqs = set_alloc(set_compare_int, iauth_req_cleanup);
    set_insert(iauth_reqs, set_node(req));
    r = iauth_validate_request(in_tag.s);
    V_ASSERT(r == NULL || r == req, "C04/C08: any tag text yields the live request or nothing, without memory errors");
    V_CANARY();
}

/* ------------------------------------------------------------------ C08: iauth_read
 * libevent's buffering is outside (S3): evbuffer_read returns any int, evbuffer_readln hands
 * out one fresh NUL-terminated line without '\n' (any content up to LINE_MAX bytes) and then
 * NULL.  The per-command handlers are replaced by their *preconditions*: model_dispatch
 * asserts what each real handler dereferences without checking. */
#ifndef LINE_MAX_V
#define LINE_MAX_V 16
#endif
struct { char s[LINE_MAX_V + 1]; } in_line;
int in_readres;
int in_found;             /* does the id name a live request? */
short in_events;
static int lines_given;
static char *the_line;
static unsigned dispatched;
static char disp_cmd; static struct iauth_request *disp_req; static int disp_argc;

int evbuffer_read(struct evbuffer *buffer, evutil_socket_t fd, int howmuch) { (void)buffer; (void)fd; (void)howmuch; return in_readres; }
char *evbuffer_readln(struct evbuffer *buffer, size_t *n_read_out, enum evbuffer_eol_style eol_style)
{
    unsigned i, n = 0;
    (void)buffer; (void)eol_style;
    if (lines_given++) return NULL;
    the_line = malloc(LINE_MAX_V + 1);
    __CPROVER_assume(the_line != NULL);
    for (i = 0; i < LINE_MAX_V + 1; i++) the_line[i] = in_line.s[i];
    for (i = 0; i < LINE_MAX_V + 1; i++) if (n == i && the_line[i] != '\0') n++;
    *n_read_out = n;
    return the_line;
}

static int inside_line(const char *p)
{
    return p != NULL && __CPROVER_same_object(p, the_line) && __CPROVER_POINTER_OFFSET(p) <= LINE_MAX_V;
}

void model_dispatch(char cmd, struct iauth_request *r, int id, int argc, char **argv, const char *a1)
{
    int i;
    (void)id;
    dispatched++; disp_cmd = cmd; disp_req = r; disp_argc = argc;
    /* what the real handlers dereference unconditionally */
    if (cmd == 'N' || cmd == 'n' || cmd == 'P')
        V_ASSERT(a1 != NULL && inside_line(a1), "C08: a hostname / nick / password handler is entered with its parameter present (no NULL dereference on a truncated line)");
    if (cmd == 'u')
        V_ASSERT(a1 == NULL || inside_line(a1), "C08: the ident parameter, if any, lies inside the line");
    if (argc >= 0) {
        V_ASSERT(argc <= 16, "C08: at most 16 arguments");
        for (i = 0; i < 16; i++)
            if (i < argc) V_ASSERT(inside_line(argv[i]), "C08: every argument handed to a handler lies inside the line buffer");
    }
    if (cmd != 'C' && cmd != 'M' && cmd != 'X' && cmd != 'x' && cmd != '?' && cmd != 'E')
        V_ASSERT(r == NULL || r == req, "C01: a per-client handler only ever sees the live request of that id");
}

void h_read(void)
{
    unsigned i;
    struct set_node *node;
    req = mk_request();
    V_IN(in_line); V_IN(in_readres); V_IN(in_found); V_IN(in_events);
    in_line.s[LINE_MAX_V] = '\0';
    for (i = 0; i < LINE_MAX_V; i++) V_ASSUME(in_line.s[i] != '\n');     /* the line splitter's contract */
    iauth_reqs = set_alloc(set_compare_int, iauth_req_cleanup);
    if (in_found) set_insert(iauth_reqs, set_node(req));
    clean_exit = 0;
    iauth_read(0, in_events, NULL);
    if (!(in_events & EV_READ)) {
        V_ASSERT(dispatched == 0 && clean_exit == 0, "no read event, nothing happens");
    } else if (in_readres == 0) {
        V_ASSERT(clean_exit == 1 && G.loopbreaks == 1 && dispatched == 0, "C08: end of input requests a clean exit of the event loop");
    } else if (in_readres < 0) {
        V_ASSERT(clean_exit == 0 && G.loopbreaks == 0 && dispatched == 0, "C08: a read error changes nothing");
    } else {
        V_ASSERT(dispatched <= 1, "C08: one line, at most one handler");
        if (dispatched && disp_cmd != 'C' && disp_cmd != 'M' && disp_cmd != 'X' && disp_cmd != 'x' && disp_cmd != '?' && disp_cmd != 'E' && disp_req != NULL)
            V_ASSERT(in_found && disp_req == req, "C01: lines for ids without a live request are dropped before dispatch");
        V_ASSERT(clean_exit == 0 && G.loopbreaks == 0, "C08: data lines never stop the loop");
    }
    V_CANARY();
}
