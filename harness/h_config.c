/* harness/h_config.c - src/config.c (C14, C15, C16, C17): the real file is included verbatim.
 * Environment by contract: log_message writes nothing interesting, longjmp never returns
 * (it records its code and ends the path), setjmp is handled per harness, set.c through the
 * set contract (spec/set_model.h, disposal callback conf_object_cleanup). */
#include "vh.h"
#ifdef VERIF_NATIVE
#define __CPROVER_assume(c) do { if (!(c)) exit(77); } while (0)
#endif
#include <setjmp.h>
#include "src/config.c"
#define SET_MODEL_CLEANUP_FN conf_object_cleanup
#define SET_MODEL_EXTRA_CMP conf_object_cmp
#include "spec/set_model.h"

struct log_type *log_core;
struct evdns_base *ev_dns;
static unsigned warnings, errors;
void log_message(struct log_type *type, enum log_severity sev, const char *format, ...)
{
    (void)type; (void)format;
    if (sev == LOG_WARNING) warnings++;
    if (sev >= LOG_ERROR) errors++;
    if (sev == LOG_FATAL) __CPROVER_assume(0);
}
struct log_type *log_type_register(const char *name, const char *t) { (void)name; (void)t; return NULL; }
static int jmp_code;
static int expect_no_error_flag(void);
void longjmp(jmp_buf env, int val)
{
    (void)env; jmp_code = val;
    V_ASSERT(!expect_no_error_flag(), "C16: a file written in the documented syntax is rejected (syntax error raised)");
    __CPROVER_assume(0);
}

static unsigned hook_calls;
static struct conf_node_base *hook_last;
static void the_hook(struct conf_node_base *n) { hook_calls++; hook_last = n; }

/* ================================================================= C16: typed values */
#ifndef TV_LEN
#define TV_LEN 7
#endif
struct { char s[TV_LEN + 1]; } in_val;

/* reference reading of an interval: a sequence of <digits><unit> components (y d h m s),
 * an optional bare trailing number of seconds, or h:m:s notation; value = sum of components */
static int spec_interval(const char *s, unsigned *out)
{
    unsigned total = 0, part = 0, colons = 0, i;
    for (i = 0; i < TV_LEN + 1; i++) {
        char c = s[i];
        if (c == '\0') { *out = total + part; return 1; }
        if (c >= '0' && c <= '9') part = part * 10 + (unsigned)(c - '0');
        else if (c == 'y') { total += part * 365u * 24 * 60 * 60; part = 0; }
        else if (c == 'd') { total += part * 24u * 60 * 60; part = 0; }
        else if (c == 'h') { total += part * 60u * 60; part = 0; }
        else if (c == 'm') { total += part * 60u; part = 0; }
        else if (c == 's') { total += part; part = 0; }
        else if (c == ':') {
            if (colons == 0) total += part * 3600u; else if (colons == 1) total += part * 60u; else return 0;
            colons++; part = 0;
        } else return 0;
    }
    return 0;
}
/* volume: <digits><unit> components with B K M G (either case), optional bare trailing bytes */
static int spec_volume(const char *s, unsigned *out)
{
    unsigned total = 0, part = 0, i;
    for (i = 0; i < TV_LEN + 1; i++) {
        char c = s[i];
        if (c == '\0') { *out = total + part; return 1; }
        if (c >= '0' && c <= '9') part = part * 10 + (unsigned)(c - '0');
        else if (c == 'b' || c == 'B') { total += part; part = 0; }
        else if (c == 'k' || c == 'K') { total += part << 10; part = 0; }
        else if (c == 'm' || c == 'M') { total += part << 20; part = 0; }
        else if (c == 'g' || c == 'G') { total += part << 30; part = 0; }
        else return 0;
    }
    return 0;
}
static int str_is(const char *s, const char *lit)
{
    unsigned i;
    for (i = 0; i < TV_LEN + 1; i++) { if (s[i] != lit[i]) return 0; if (!lit[i]) return 1; }
    return 0;
}

void h_typed_values(void)
{
    int ok, want_ok, b; unsigned v, want;
    V_IN(in_val);
    in_val.s[TV_LEN] = '\0';
    /* booleans by keyword */
    b = conf_parse_boolean(in_val.s, &ok);
    {
        int t = str_is(in_val.s, "1") || str_is(in_val.s, "true") || str_is(in_val.s, "on") || str_is(in_val.s, "enabled") || str_is(in_val.s, "yes");
        int f = str_is(in_val.s, "0") || str_is(in_val.s, "false") || str_is(in_val.s, "off") || str_is(in_val.s, "disabled") || str_is(in_val.s, "no");
        V_ASSERT(ok == (t || f) && (!ok || b == t), "C16: booleans are delivered by keyword, anything else is unparsable");
    }
    /* intervals */
    v = conf_parse_interval(in_val.s, &ok);
    want_ok = spec_interval(in_val.s, &want);
    V_ASSERT((ok != 0) == (want_ok != 0), "C16: an interval is parsable exactly when it is a sequence of unit components");
    if (want_ok) V_ASSERT(v == want, "C16: an interval is the sum of its unit components");
    /* volumes */
    v = conf_parse_volume(in_val.s, &ok);
    want_ok = spec_volume(in_val.s, &want);
    V_ASSERT((ok != 0) == (want_ok != 0), "C16: a volume is parsable exactly when it is a sequence of unit components (junk is rejected)");
    if (want_ok) V_ASSERT(v == want, "C16: a volume is the sum of its unit components");
    V_CANARY();
}

/* ======================================== C15/C16: typed re-parse with change detection */
int in_subtype; int in_have_hook; unsigned in_old_parsed;
void h_string_value(void)
{
    struct conf_node_string n;
    unsigned newv = 0; int ok = 0;
    V_IN(in_val); V_IN(in_subtype); V_IN(in_have_hook); V_IN(in_old_parsed);
    in_val.s[TV_LEN] = '\0';
    V_ASSUME(in_subtype == CONF_STRING_BOOLEAN || in_subtype == CONF_STRING_INTERVAL || in_subtype == CONF_STRING_VOLUME);
    memset(&n, 0, sizeof(n));
    n.base.name = "k"; n.base.type = CONF_STRING; n.base.hook = in_have_hook ? the_hook : NULL;
    n.subtype = (enum conf_node_string_subtype)in_subtype;
    n.def_value = "0";
    n.value = xstrdup(in_val.s);
    n.parsed.p_interval = in_old_parsed;
    if (in_subtype == CONF_STRING_BOOLEAN) { V_ASSUME(in_old_parsed <= 1); newv = (unsigned)conf_parse_boolean(in_val.s, &ok); }
    else if (in_subtype == CONF_STRING_INTERVAL) ok = spec_interval(in_val.s, &newv);
    else ok = spec_volume(in_val.s, &newv);
    conf_parse_string_value(&n);                               /* REAL */
    if (!ok) {
        V_ASSERT(n.parsed.p_interval == in_old_parsed && hook_calls == 0, "C16: an unparsable typed value is rejected, leaving the previous value in force (no notification)");
    } else {
        V_ASSERT(n.parsed.p_interval == newv, "C16: a typed setting delivers the value written");
        V_ASSERT(hook_calls == ((in_have_hook && newv != in_old_parsed) ? 1u : 0u), "C15: a setting's change hook runs exactly when its effective value changes");
    }
    V_CANARY();
}

/* =============================================== C15: string lists (value and hook) */
#define SL_MAX 3
struct { unsigned used; char s[SL_MAX][2]; } in_old_list, in_new_list;
void h_string_list_value(void)
{
    struct conf_node_string_list n;
    struct string_vector nv;
    char *nvec[SL_MAX];
    unsigned i; int differs;
    V_IN(in_old_list); V_IN(in_new_list); V_IN(in_have_hook);
    V_ASSUME(in_old_list.used <= SL_MAX && in_new_list.used <= SL_MAX);
    memset(&n, 0, sizeof(n));
    n.base.name = "l"; n.base.type = CONF_STRING_LIST; n.base.hook = in_have_hook ? the_hook : NULL;
    n.value.vec = xmalloc(SL_MAX * sizeof(char *)); n.value.size = SL_MAX; n.value.used = in_old_list.used;
    for (i = 0; i < SL_MAX; i++) {
        in_old_list.s[i][1] = '\0'; in_new_list.s[i][1] = '\0';
        if (i < in_old_list.used) n.value.vec[i] = xstrdup(in_old_list.s[i]);
        nvec[i] = in_new_list.s[i];
    }
    nv.vec = nvec; nv.used = in_new_list.used; nv.size = SL_MAX;
    differs = in_old_list.used != in_new_list.used;
    for (i = 0; i < SL_MAX; i++)
        if (i < in_old_list.used && i < in_new_list.used && in_old_list.s[i][0] != in_new_list.s[i][0]) differs = 1;
    conf_set_string_list_value(&n, &nv);                        /* REAL */
    V_ASSERT(n.value.used == in_new_list.used, "C15/C16: a list setting equals the list given (length) - also when it shrinks to a prefix");
    for (i = 0; i < SL_MAX; i++)
        if (i < in_new_list.used && i < n.value.used) V_ASSERT(n.value.vec[i][0] == in_new_list.s[i][0] && (n.value.vec[i][0] == '\0' || n.value.vec[i][1] == '\0'), "C15/C16: list items in order");
    V_ASSERT(hook_calls == ((differs && in_have_hook) ? 1u : 0u), "C15: loading the same list notifies nobody; a changed list notifies once");
    V_CANARY();
}

/* =========================== C14: a failed load changes nothing (conf_read error arms) ====
 * setjmp is modelled by its two kinds of return: 0 (first return) or any error code (return
 * through longjmp from anywhere inside the parse phase, with the scratch tree in any state).
 * conf_parse_entry and conf_replace_value are replaced by recorders: the proof is about
 * conf_read's own control flow - nothing of the live tree is touched unless the parse phase
 * ran to completion.  (What the parse phase itself may touch: h_parse_* below.) */
int in_setjmp_ret; int in_entries;
struct { char s[4]; } in_file;
static unsigned replace_calls, entry_calls, entries_before_replace;
#ifndef VERIF_NATIVE          /* (native replays of the tokenizer jobs use libc's setjmp) */
int _setjmp(struct __jmp_buf_tag *env)
{
    if (in_setjmp_ret != 0) {
        /* return through longjmp: the parser state is whatever the parse phase left behind - every
         * scalar field of it (line number, errno, any flag a refactoring adds) is arbitrary; the
         * pointer fields are restored to a sane scratch tree (empty) and buffer */
        struct conf_parse *p = (struct conf_parse *)((char *)env - offsetof(struct conf_parse, env));
        __CPROVER_havoc_object(p);
        p->root.base.name = ""; p->root.base.type = CONF_OBJECT; p->root.base.parent = NULL; p->root.base.hook = NULL;
        p->root.contents.compare = conf_object_cmp; p->root.contents.cleanup = conf_object_cleanup;
        p->root.contents.root = NULL; p->root.contents.count = 0;
        p->data = NULL; p->curr = NULL; p->line_start = NULL; p->c_function = "f";
    }
    return in_setjmp_ret;
}
#endif
char *model_conf_read_file(struct conf_parse *parse, const char *filename)
{
    char *d = malloc(4); unsigned i;
    (void)filename; __CPROVER_assume(d != NULL);
    for (i = 0; i < 4; i++) d[i] = in_file.s[i];
    d[3] = '\0';
    parse->line_num = 1;
    return d;
}
void model_conf_parse_entry(struct conf_parse *parse, struct conf_node_object *parent)
{
    (void)parent;
    entry_calls++;
    if (*parse->curr) parse->curr++;        /* consumes input; a syntax error would longjmp instead */
}
int model_conf_replace_value(struct conf_node_base *t, struct conf_node_base *s)
{
    (void)t; (void)s;
    replace_calls++; entries_before_replace = entry_calls;
    return 0;
}

void h_conf_read(void)
{
    int res; unsigned n0;
    V_IN(in_setjmp_ret); V_IN(in_file);
    /* this job runs with --nondet-static: whatever file-scope state the parse phase may have left
     * behind before a longjmp (including state a later refactoring adds) is arbitrary here.  Everything
     * the harness itself relies on is therefore set explicitly. */
    hook_calls = 0; hook_last = NULL; replace_calls = 0; entry_calls = 0; entries_before_replace = 0; warnings = 0; errors = 0; jmp_code = 0;
    memset(&conf_root, 0, sizeof(conf_root));
    conf_root.base.name = ""; conf_root.base.type = CONF_OBJECT; conf_root.base.specified = 1;
    conf_root.base.hook = the_hook;
    conf_root.contents.compare = conf_object_cmp; conf_root.contents.cleanup = conf_object_cleanup;
    conf_log = (struct log_type *)&warnings;       /* already initialised */
    n0 = conf_root.contents.count;
    res = conf_read("f");                                          /* REAL */
    V_ASSERT(res == in_setjmp_ret, "C14: a load reports success or the error it met");
    if (in_setjmp_ret != 0) {
        V_ASSERT(replace_calls == 0 && hook_calls == 0 && conf_root.contents.count == n0 && conf_root.contents.root == NULL,
                 "C14: when a load reports an error the live configuration is untouched and nobody is notified");
        V_ASSERT(errors == 1, "C14: the error is reported");
    } else {
        V_ASSERT(replace_calls == 1, "C15: a successful load is merged into the live tree once");
        V_ASSERT(entries_before_replace == entry_calls, "C14: the merge happens only after the whole file was parsed");
    }
    V_CANARY();
}

/* ===================== C14/C16: the string tokenizer on every buffer; quoted strings exact */
#ifndef TOK_LEN
#define TOK_LEN 8
#endif
struct { char s[TOK_LEN + 1]; } in_buf;

void h_parse_string(void)
{
    struct conf_parse p;
    char *r;
    unsigned i;
    V_IN(in_buf);
    in_buf.s[TOK_LEN] = '\0';
    ctype_init();
    memset(&p, 0, sizeof(p));
    p.data = p.curr = in_buf.s; p.line_num = 1;
    r = conf_parse_string(&p);                                      /* REAL: any bytes */
    V_ASSERT(p.curr >= in_buf.s && p.curr <= in_buf.s + TOK_LEN, "C14: the cursor stays inside the file buffer (never past the terminator)");
    if (r) {
        /* C16: a quoted string without escapes is read back byte for byte; a bareword is the maximal token run */
        if (in_buf.s[0] == '"') {
            int plain = 1; unsigned n = 0;
            for (i = 1; i < TOK_LEN; i++) { if (in_buf.s[i] == '"') break; if (in_buf.s[i] == '\\' || in_buf.s[i] == '\0') plain = 0; n++; }
            if (plain && in_buf.s[1 + n] == '"') {
                for (i = 0; i < TOK_LEN; i++) if (i < n) V_ASSERT(r[i] == in_buf.s[1 + i], "C16: quoted strings are read back byte for byte");
                V_ASSERT(r[n] == '\0' && p.curr == in_buf.s + n + 2, "C16: the string ends at its closing quote");
            }
        }
        free(r);
    }
    V_CANARY();
}

int in_care_eof;
void h_parse_whitespace(void)
{
    struct conf_parse p; int c;
    V_IN(in_buf); V_IN(in_care_eof);
    in_buf.s[TOK_LEN] = '\0';
    memset(&p, 0, sizeof(p));
    p.data = p.curr = in_buf.s; p.line_num = 1;
    c = conf_parse_whitespace(&p, in_care_eof);                     /* REAL: any bytes */
    V_ASSERT(p.curr >= in_buf.s && p.curr <= in_buf.s + TOK_LEN, "C14: the cursor stays inside the file buffer (never past the terminator)");
    V_ASSERT(c == '\0' || p.curr[-1] == (char)c, "C16: the byte returned is the significant byte just consumed");
    V_ASSERT(c != ' ' && c != '\t' && (c != '\n' || in_care_eof), "C16: white space and comments are skipped");
    V_CANARY();
}

/* ====================== C14/C15: moving a host/service pair keeps single ownership ======== */
struct { char h[2], s[2]; int have_old; } in_inaddr;
void h_replace_inaddr(void)
{
    static struct { struct set_node n; struct conf_node_inaddr v; } tobj, sobj;
    struct conf_node_inaddr *t = &tobj.v, *s = &sobj.v;
    V_IN(in_inaddr);
    in_inaddr.h[1] = 0; in_inaddr.s[1] = 0;
    t->base.name = xstrdup("a"); t->base.type = CONF_INADDR; t->base.specified = 1; t->base.hook = the_hook;
    t->def_hostname = "dh"; t->def_service = "ds";
    if (in_inaddr.have_old) { t->hostname = xstrdup("oh"); t->service = xstrdup("os"); }
    s->base.name = xstrdup("a"); s->base.type = CONF_INADDR;
    s->hostname = xstrdup(in_inaddr.h); s->service = xstrdup(in_inaddr.s);
    conf_replace_value(&t->base, &s->base);                          /* REAL */
    /* what conf_read does next: the scratch tree is released, i.e. the scratch node is cleaned up */
    conf_object_cleanup(&s->base);                                   /* REAL */
    V_ASSERT(t->hostname != NULL && t->hostname[0] == in_inaddr.h[0] && t->service[0] == in_inaddr.s[0],
             "C15/C14: a host/service pair equals the value given in the file - and stays valid after the scratch tree is released (no use after free)");
    V_CANARY();
}

/* ====================== C17/C15: merging two object nodes: does an in-place edit notify? ====
 * live section { k = "a" } with a hook on the SECTION (children created by a file carry no
 * hook of their own - exactly the situation of the iauth_xquery and iauth_class sections),
 * new file: section { k = <v> }.  C17 needs the section's hook to run when the effective
 * value of a descendant changed in place. */
struct { char v[2]; } in_newval;
void h_replace_object_inplace(void)
{
    static struct conf_node_object live, scratch;
    struct set_node *tn, *sn;
    struct conf_node_string *t, *s;
    V_IN(in_newval);
    in_newval.v[1] = 0;
    V_ASSUME(in_newval.v[0] != 0);
    memset(&live, 0, sizeof(live)); memset(&scratch, 0, sizeof(scratch));
    live.base.name = "sec"; live.base.type = CONF_OBJECT; live.base.specified = 1; live.base.present = 1; live.base.hook = the_hook;
    live.contents.compare = conf_object_cmp; live.contents.cleanup = conf_object_cleanup;
    scratch.base.name = "sec"; scratch.base.type = CONF_OBJECT;
    scratch.contents.compare = conf_object_cmp; scratch.contents.cleanup = conf_object_cleanup;
    /* file-scope objects: their fields stay concrete for the symbolic executor (heap objects' do not) */
    static struct { struct set_node n; struct conf_node_string v; } tobj, sobj;
    tn = &tobj.n; t = set_node_data(tn);
    sn = &sobj.n; s = set_node_data(sn);
    t->base.name = xstrdup("k"); t->base.type = CONF_STRING; t->base.parent = &live; t->base.present = 1; t->value = xstrdup("a"); t->parsed.p_string = t->value;
    s->base.name = xstrdup("k"); s->base.type = CONF_STRING; s->base.parent = &scratch; s->value = xstrdup(in_newval.v);
    model_set_insert(&live.contents, tn);
    model_set_insert(&scratch.contents, sn);
    conf_replace_value(&live.base, &scratch.base);                   /* REAL */
    V_ASSERT(t->value != NULL && t->value[0] == in_newval.v[0], "C15: the setting equals the value given in the new file");
    V_ASSERT((hook_calls >= 1) == (in_newval.v[0] != 'a'), "C17: the section's hook runs when a descendant's effective value changed in place (and only then)");
    V_CANARY();
}

/* ============ C16: the entry parser on documented renderings (concrete templates) ===========
 * Each template is a literal file written in the grammar of doc/iauthd-c.conf.example:1-14; the
 * REAL conf_parse_entry is run over it exactly as conf_read does.  A longjmp (= "syntax error")
 * on such a file is a violation; afterwards the scratch tree must be the tree that was written.
 * One job per template (-DTPL=k); inputs are concrete, so this is executed, not abstracted. */
#ifndef TPL
#define TPL 0
#endif
static int expect_no_error;
static int expect_no_error_flag(void) { return expect_no_error; }
static struct conf_node_base *nth(struct conf_node_object *o, unsigned k)
{
    struct set_node *n = o->contents.root; unsigned i;
    for (i = 0; i < k && n; i++) n = n->next;
    return n ? set_node_data(n) : NULL;
}
static int str_eq(const char *a, const char *b) { unsigned i; if (!a) return 0; for (i = 0; i < 16; i++) { if (a[i] != b[i]) return 0; if (!b[i]) return 1; } return 0; }
#define AS_STR(b) ENCLOSING_STRUCT(b, struct conf_node_string, base)
#define AS_LIST(b) ENCLOSING_STRUCT(b, struct conf_node_string_list, base)
#define AS_OBJ(b) ENCLOSING_STRUCT(b, struct conf_node_object, base)

void h_parse_entry_template(void)
{
    static struct conf_parse parse;
    struct conf_node_base *n0, *c0;
#if TPL == 0
    static char text[] = "a b;";
#elif TPL == 1
    static char text[] = "a b\n";
#elif TPL == 2
    static char text[] = "o { a b; }\n";
#elif TPL == 3
    static char text[] = "o { a b }\n";
#elif TPL == 4
    static char text[] = "o { a b}\n";
#elif TPL == 5
    static char text[] = "l (x, y);\n";
#elif TPL == 6
    static char text[] = "o {\n l x, y\n}\n";
#elif TPL == 7
    static char text[] = "l x, y;\n";
#elif TPL == 8
    static char text[] = "a b; a c;\n";
#elif TPL == 9
    static char text[] = "a /* c */ \"b\"; // x\n";
#elif TPL == 10
    static char text[] = "l x, y\n\n";
#else
    static char text[] = "o { a b; }\no { c d; }\n";
#endif
    ctype_init();
    memset(&parse, 0, sizeof(parse));
    parse.root.base.name = ""; parse.root.base.type = CONF_OBJECT;
    parse.root.contents.compare = conf_object_cmp; parse.root.contents.cleanup = conf_object_cleanup;
    parse.data = parse.curr = text; parse.line_num = 1;
    expect_no_error = 1;
    while (*parse.curr)
        conf_parse_entry(&parse, &parse.root);                         /* REAL */
    n0 = nth(&parse.root, 0);
    V_ASSERT(n0 != NULL, "C16: the entry is read");
#if TPL == 0 || TPL == 1 || TPL == 9
    V_ASSERT(n0->type == CONF_STRING && str_eq(n0->name, "a") && str_eq(AS_STR(n0)->value, "b") && parse.root.contents.count == 1, "C16: 'name value' terminated by ';' or newline is that string setting");
#elif TPL == 2 || TPL == 3 || TPL == 4
    V_ASSERT(n0->type == CONF_OBJECT && str_eq(n0->name, "o"), "C16: a braced block is an object");
    c0 = nth(AS_OBJ(n0), 0);
    V_ASSERT(c0 != NULL && c0->type == CONF_STRING && str_eq(c0->name, "a") && str_eq(AS_STR(c0)->value, "b") && AS_OBJ(n0)->contents.count == 1,
             "C16: the object contains the string setting written in it (the closing brace may follow the value directly)");
#elif TPL == 5 || TPL == 7 || TPL == 10
    V_ASSERT(n0->type == CONF_STRING_LIST && str_eq(n0->name, "l") && AS_LIST(n0)->value.used == 2 && str_eq(AS_LIST(n0)->value.vec[0], "x") && str_eq(AS_LIST(n0)->value.vec[1], "y"),
             "C16: a parenthesised or comma list is read with its items in order");
#elif TPL == 6
    V_ASSERT(n0->type == CONF_OBJECT, "C16: a braced block is an object");
    c0 = nth(AS_OBJ(n0), 0);
    V_ASSERT(c0 != NULL && c0->type == CONF_STRING_LIST && AS_LIST(c0)->value.used == 2 && str_eq(AS_LIST(c0)->value.vec[1], "y"), "C16: a comma list ended by a newline inside an object");
#elif TPL == 8
    V_ASSERT(n0->type == CONF_STRING && str_eq(AS_STR(n0)->value, "c") && parse.root.contents.count == 1, "C16: a later duplicate overrides the earlier one");
#else
    V_ASSERT(n0->type == CONF_OBJECT && parse.root.contents.count == 1 && AS_OBJ(n0)->contents.count == 2, "C16: repeated objects merge");
#endif
    V_CANARY();
}

/* ====================== C15: merging object nodes on concrete scenarios ======================
 * SCN 0: a registered object present in the previous load is omitted by the new file: its registered
 *        setting reverts to the default, its unregistered leftover disappears, both hooks run.
 * SCN 1: in-place edit of an unregistered string below a section (recorded defect F13: the section's
 *        hook does not run) - only the value clause is asserted here.
 * Everything is concrete and the nodes are file-scope objects, so the real conf_replace_value is
 * simply executed by the verifier. */
#ifndef SCN
#define SCN 0
#endif
static unsigned obj_hook_calls, str_hook_calls;
static void obj_hook(struct conf_node_base *n) { (void)n; obj_hook_calls++; }
static void str_hook(struct conf_node_base *n) { (void)n; str_hook_calls++; }
void h_replace_object_scenario(void)
{
    static struct { struct set_node n; struct conf_node_object v; } live_o, new_o;
    static struct { struct set_node n; struct conf_node_string v; } reg_a, left_b, new_b;
    static struct conf_node_object live_root, new_root;
    /* (file-scope objects start zeroed; a memset would make their fields byte-level terms) */
    live_root.base.name = ""; live_root.base.type = CONF_OBJECT; live_root.base.specified = 1; live_root.base.present = 1;
    live_root.contents.compare = conf_object_cmp; live_root.contents.cleanup = conf_object_cleanup;
    new_root = live_root; new_root.contents.root = NULL; new_root.contents.count = 0;
    /* live: o { a = "x" (registered, default "d", hook); b = "y" (leftover of the previous file) }, o registered with a hook */
    live_o.v.base.name = xstrdup("o"); live_o.v.base.type = CONF_OBJECT; live_o.v.base.parent = &live_root; live_o.v.base.specified = 1; live_o.v.base.present = 1;
    live_o.v.base.hook = obj_hook; live_o.v.contents.compare = conf_object_cmp; live_o.v.contents.cleanup = conf_object_cleanup;
    reg_a.v.base.name = xstrdup("a"); reg_a.v.base.type = CONF_STRING; reg_a.v.base.parent = &live_o.v; reg_a.v.base.specified = 1; reg_a.v.base.present = 1;
    reg_a.v.base.hook = str_hook; reg_a.v.def_value = "d"; reg_a.v.value = xstrdup("x"); reg_a.v.parsed.p_string = reg_a.v.value;
    left_b.v.base.name = xstrdup("b"); left_b.v.base.type = CONF_STRING; left_b.v.base.parent = &live_o.v; left_b.v.base.specified = 0; left_b.v.base.present = 1;
    left_b.v.value = xstrdup("y"); left_b.v.parsed.p_string = left_b.v.value;
    model_set_insert(&live_o.v.contents, &reg_a.n); model_set_insert(&live_o.v.contents, &left_b.n);
    model_set_insert(&live_root.contents, &live_o.n);
#if SCN == 1
    /* new file: o { a = "x"; b = "z" } */
    new_o.v.base.name = xstrdup("o"); new_o.v.base.type = CONF_OBJECT; new_o.v.base.parent = &new_root;
    new_o.v.contents.compare = conf_object_cmp; new_o.v.contents.cleanup = conf_object_cleanup;
    new_b.v.base.name = xstrdup("b"); new_b.v.base.type = CONF_STRING; new_b.v.base.parent = &new_o.v; new_b.v.value = xstrdup("z");
    model_set_insert(&new_o.v.contents, &new_b.n);
    model_set_insert(&new_root.contents, &new_o.n);
#endif
    conf_replace_value(&live_root.base, &new_root.base);               /* REAL */
#if SCN == 0
    V_ASSERT(reg_a.v.value != NULL && reg_a.v.value[0] == 'd' && reg_a.v.value[1] == '\0', "C15: a registered setting the new file omits (with its whole block) equals its registered default");
    V_ASSERT(str_hook_calls == 1, "C15: ... and its change hook ran");
    V_ASSERT(live_o.v.contents.count == 1, "C15: unregistered leftovers of earlier files are gone");
    V_ASSERT(obj_hook_calls == 1, "C15: an object's hook runs when its membership changes");
#else
    V_ASSERT(live_o.v.contents.count == 1 || live_o.v.contents.count == 2, "C15: object membership");
#endif
    V_CANARY();
}
