/* harness/h_log.c - src/log.c (C18, and the C09 clause "log text never reaches the server
 * channel outside debug mode"): the real file is included verbatim; sets by contract. */
#include "vh.h"
#include "src/log.c"
#define SET_MODEL_CLEANUP_FN log_type_cleanup
#define SET_MODEL_CLEANUP_FN2 log_destination_cleanup
#include "spec/set_model.h"

extern unsigned int g_out_len, g_other_stream_writes, g_stdout_fprintf;

/* ============================================================ C18: severity-set expressions
 * The entry name is rendered from symbolic choices: facility "t", then up to two items, each an
 * operator (none = >= > <= <) and a severity name (six valid, one unknown word), or "*". */
struct { unsigned n; unsigned char op[2], sev[2]; int star; int nodot; } in_expr;
/* (switch functions, not pointer tables: the symbolic executor folds these to string literals) */
static const char *opname(unsigned k) { switch (k) { case 0: return ""; case 1: return "="; case 2: return ">="; case 3: return ">"; case 4: return "<="; default: return "<"; } }
static const char *sevname(unsigned k) { switch (k) { case 0: return "debug"; case 1: return "Command"; case 2: return "info"; case 3: return "WARNING"; case 4: return "error"; case 5: return "fatal"; default: return "bogus"; } }

static unsigned put(char *dst, unsigned pos, const char *s) { unsigned i; for (i = 0; i < 8 && s[i]; i++) dst[pos++] = s[i]; return pos; }

/* the mathematical set an expression denotes (C18 statement): names, comma lists, ranges, * */
static int spec_sevset(unsigned *mask)
{
    unsigned k, s, m = 0;
    if (in_expr.nodot) return 0;
    if (in_expr.star) { *mask = 0x3f; return 1; }
    for (k = 0; k < 2; k++) {
        if (k >= in_expr.n) break;
        if (in_expr.sev[k] > 5) return 0;                /* unknown syntax: the entry is ignored as a whole */
        for (s = 0; s < 6; s++) {
            int in = 0;
            switch (in_expr.op[k]) {
            case 0: case 1: in = (s == in_expr.sev[k]); break;
            case 2: in = (s >= in_expr.sev[k]); break;
            case 3: in = (s > in_expr.sev[k]); break;
            case 4: in = (s <= in_expr.sev[k]); break;
            default: in = (s < in_expr.sev[k]); break;
            }
            if (in) m |= 1u << s;
        }
    }
    *mask = m;
    return 1;
}

static void sevset_case(void)
{
    char text[40]; unsigned pos = 0, k, want = 0; int want_ok, res;
    struct log_type *type = NULL; struct severity_bitset sevset;
    text[pos++] = 't';
    if (!in_expr.nodot) text[pos++] = '.';
    if (in_expr.star) text[pos++] = '*';
    else for (k = 0; k < 2; k++) if (k < in_expr.n) {
        if (k) text[pos++] = ',';
        pos = put(text, pos, opname(in_expr.op[k]));
        pos = put(text, pos, sevname(in_expr.sev[k]));
    }
    text[pos] = '\0';
    want_ok = spec_sevset(&want);
    res = log_parse_type_sevset(&type, &sevset, text);                 /* REAL */
    V_ASSERT((res == 0) == (want_ok != 0), "C18: an entry with unknown syntax is ignored as a whole; a well-formed one is accepted");
    if (want_ok) {
        V_ASSERT(type != NULL && type->name[0] == 't' && type->name[1] == '\0', "C18: the entry is attributed to its facility");
        V_ASSERT(sevset.bits[0] == want, "C18: the severity set is exactly the one the expression denotes (names, comma lists, < <= = >= > ranges, *)");
    }
}

/* exhaustive over the expression grammar with one or two items: 6 operators x 7 names per item,
 * plus "*" and the missing-dot form (1808 concrete expressions, every one executed by the verifier) */
void h_log_sevset(void)
{
    /* a typed file-scope node (a malloc(a + b) byte array would make every field a byte-level term) */
    static struct { struct set_node n; struct log_type t; } tnode;
    unsigned o0, s0, o1, s1;
    tnode.t.name = "t";
    log_types.compare = set_compare_charp; log_types.root = &tnode.n; log_types.count = 1;
    log_vtables.compare = set_compare_charp;       /* log_init already ran */
    in_expr.star = 1; in_expr.nodot = 0; in_expr.n = 1; sevset_case();
    in_expr.star = 0; in_expr.nodot = 1; in_expr.n = 1; in_expr.op[0] = 0; in_expr.sev[0] = 2; sevset_case();
    in_expr.nodot = 0;
#ifdef SEV_QUICK
    {   /* quick tier: a hand-picked list of expressions (every operator, every name, the documented
         * list forms incl. range-then-name and unknown words), split over two jobs */
#define SEV_CASE(N, O0, S0, O1, S1) do { in_expr.n = N; in_expr.op[0] = O0; in_expr.sev[0] = S0; in_expr.op[1] = O1; in_expr.sev[1] = S1; sevset_case(); } while (0)
        /* literals, not a table: reads from static arrays are not folded by the symbolic executor, and a
         * text of symbolic length makes xstrdup() allocate an object of symbolic size */
#if SEV_QUICK == 0
        SEV_CASE(1,0,3,0,0); SEV_CASE(1,1,3,0,0); SEV_CASE(1,2,3,0,0); SEV_CASE(1,3,3,0,0); SEV_CASE(1,4,3,0,0);
        SEV_CASE(1,5,3,0,0); SEV_CASE(1,0,0,0,0); SEV_CASE(1,0,1,0,0); SEV_CASE(1,0,2,0,0); SEV_CASE(1,0,4,0,0);
#else
        SEV_CASE(1,0,5,0,0); SEV_CASE(1,0,6,0,0); SEV_CASE(2,2,4,0,0); SEV_CASE(2,3,3,0,1); SEV_CASE(2,5,1,1,3);
        SEV_CASE(2,0,2,2,4); SEV_CASE(2,0,6,0,2); SEV_CASE(2,0,2,0,6); SEV_CASE(2,4,1,3,4); SEV_CASE(2,1,0,1,5);
#endif
    }
    V_CANARY();
    return;
#endif
    /* the enumeration is split over jobs by the first operator (-DSEV_O0=k): the symbolic executor
     * slows down with the number of heap objects a single run creates */
#ifdef SEV_O0
    for (o0 = SEV_O0; o0 < SEV_O0 + 1; o0++) for (s0 = 0; s0 < 7; s0++) {
#else
    for (o0 = 0; o0 < 6; o0++) for (s0 = 0; s0 < 7; s0++) {
#endif
        in_expr.n = 1; in_expr.op[0] = (unsigned char)o0; in_expr.sev[0] = (unsigned char)s0;
        sevset_case();
#ifdef SEVSET_SLICE
        /* quick slice of the two-item expressions: first name command / warning, second debug / error / unknown */
        if (s0 != 1 && s0 != 3) continue;
#endif
        for (o1 = 0; o1 < 6; o1++) for (s1 = 0; s1 < 7; s1++) {
#ifdef SEVSET_SLICE
            if (s1 != 0 && s1 != 4 && s1 != 6) continue;
            if (o0 < 2 && o1 > 1 && s1 != 6) continue;   /* keep: every range-then-name, name-then-range only with the unknown word */
#endif
            in_expr.n = 2; in_expr.op[1] = (unsigned char)o1; in_expr.sev[1] = (unsigned char)s1;
            sevset_case();
        }
    }
    V_CANARY();
}

/* ============================================ C18/C09: message fan-out and the server channel */
struct { unsigned n_type, n_star; int verbosity; int sev; int have_type; int ts; } in_msg;
static unsigned logged[4]; static unsigned bad_attr;
static struct log_type *cur_type; static int cur_sev;
static void ghost_log(struct log_destination *self, struct log_type *type, enum log_severity sev, const char *message)
{
    unsigned i = (unsigned)self->refcnt;      /* the harness stores the destination's index here */
    (void)message;
    if (i < 4) logged[i]++;
    if (type != cur_type || (int)sev != cur_sev) bad_attr++;
}
static struct log_destination_vtable gvt = { "ghost", NULL, NULL, NULL, ghost_log };
struct tm *localtime_r(const time_t *t, struct tm *r) { (void)t; memset(r, 0, sizeof(*r)); return r; }
size_t strftime(char *s, size_t max, const char *f, const struct tm *tm) { (void)f; (void)tm; if (max) s[0] = '\0'; return 0; }
time_t time(time_t *t) { if (t) *t = 0; return 0; }

void h_log_message(void)
{
    static struct log_type T, D;
    static struct log_destination dst[4];
    static struct log_destination *tv[2], *dv[2];
    static struct conf_node_string vts;
    unsigned i;
    V_IN(in_msg);
    V_ASSUME(in_msg.n_type <= 2 && in_msg.n_star <= 2 && in_msg.sev >= 0 && in_msg.sev < LOG_NUM_SEVERITIES - 1);
    for (i = 0; i < 4; i++) { dst[i].vtbl = &gvt; dst[i].refcnt = (int)i; }
    tv[0] = &dst[0]; tv[1] = &dst[1]; dv[0] = &dst[2]; dv[1] = &dst[3];
    T.name = "t"; D.name = "*";
    T.logs[in_msg.sev].vec = tv; T.logs[in_msg.sev].used = in_msg.n_type; T.logs[in_msg.sev].size = 2;
    D.logs[in_msg.sev].vec = dv; D.logs[in_msg.sev].used = in_msg.n_star; D.logs[in_msg.sev].size = 2;
    log_default = &D;
    vts.parsed.p_boolean = in_msg.ts != 0; conf.verbose_timestamp = &vts;
    log_verbosity = in_msg.verbosity;
    cur_type = in_msg.have_type ? &T : NULL; cur_sev = in_msg.sev;
    g_out_len = 0;
    log_message(cur_type, (enum log_severity)in_msg.sev, "x %s", "y");   /* REAL log_message -> log_vmessage */
    if (in_msg.have_type) {
        V_ASSERT(logged[0] == (in_msg.n_type > 0) && logged[1] == (in_msg.n_type > 1), "C18: a message is written once to each destination its facility and severity map to");
        V_ASSERT(logged[2] == (in_msg.n_star > 0) && logged[3] == (in_msg.n_star > 1), "C18: ... and once to each destination of the * facility");
        V_ASSERT(bad_attr == 0, "C18: every line is attributed to its facility and severity");
    } else
        V_ASSERT(logged[0] + logged[1] + logged[2] + logged[3] == 0, "a message without facility goes nowhere");
    {
        int debug_out = (in_msg.verbosity > 1) || (in_msg.verbosity == 1 && in_msg.sev >= LOG_WARNING);
        V_ASSERT((g_stdout_fprintf + g_out_len > 0) == (debug_out != 0), "C09: log text reaches the server channel only in debug mode (verbosity raised by -d)");
    }
    V_CANARY();
}


/* ============================================ C18: the routing after a (re)scan is the section's
 * real log_rescan_conf + log_attach_destinations + log_destination_open + log_rescan_type from an
 * arbitrary previous routing: afterwards every (facility, severity) vector is exactly what the
 * section's entries say, in order; destinations nobody references any more are closed once; and
 * every entry carries a change hook through which an in-place edit of its value re-establishes
 * the same.  log_parse_type_sevset is used through its contract (decided in the log_sevset jobs):
 * the harness fixes, per entry, "unknown syntax" / facility / severity set. */
#ifndef LR_CASE
#define LR_CASE 0
#endif
struct { unsigned char err[2], ty[2], mask[2]; int v0null; int old_ref[2]; unsigned old_spec; } in_lr;
static struct { struct set_node n; struct log_type t; } lr_type[2];           /* "*" and "t" */
static struct { struct set_node n; struct conf_node_string s; } lr_c0, lr_c1s;
static struct { struct set_node n; struct conf_node_string_list l; } lr_c1l;
static struct conf_node_base *lr_child[2];
static char *lr_list2[2];
static struct log_destination *lr_closed[4]; static unsigned lr_n_closed, lr_opened;
static struct log_destination_vtable lr_vt;

static struct log_destination *lr_open(const char *args)
{
    /* a typed allocation (not calloc(1, a + b), which the verifier represents as a byte array:
     * pointers stored in it would come back byte by byte and nothing after would be concrete) */
    struct lr_dnode { struct set_node n; struct log_destination d; } *n = malloc(sizeof(struct lr_dnode));
    static const struct lr_dnode zero;
    (void)args; V_ASSUME(n != NULL); *n = zero; lr_opened++;
    return &n->d;
}
static void lr_close(struct log_destination *self) { if (lr_n_closed < 4) lr_closed[lr_n_closed] = self; lr_n_closed++; }
static struct log_destination *lr_mkdest(const char *name, int refcnt)
{
    struct log_destination *d = lr_open(NULL); size_t n = strlen(name) + 1;
    size_t i; d->name = malloc(n); V_ASSUME(d->name != NULL); for (i = 0; i < 8 && i < n; i++) d->name[i] = name[i];
    d->vtbl = &lr_vt; d->refcnt = refcnt;
    return d;
}
int model_parse_type_sevset(void **type, void *sevset, const char *name)
{
    /* entries are told apart by content ("e0" / "e1"): equality of two string-literal addresses is
     * not decided by the symbolic executor's simplifier, which would make k (and all that follows) symbolic */
    unsigned k = (name[1] == '1');
    V_ASSERT(name[0] == 'e' && (name[1] == '0' || name[1] == '1') && name[2] == '\0', "log_parse_type_sevset contract: called with an entry's name");
    if (in_lr.err[k]) return 1;                                   /* unknown syntax */
    *type = in_lr.ty[k] == 0 ? (void *)&lr_type[0].t : in_lr.ty[k] == 1 ? (void *)&lr_type[1].t : NULL;     /* "*", "t", unknown facility */
    ((struct severity_bitset *)sevset)->bits[0] = in_lr.mask[k];
    return 0;
}
void model_log_message(void *type, int sev, const char *format) { (void)type; (void)sev; (void)format; }

/* the destinations entry k names, in order */
static unsigned lr_entry_dests(unsigned k, const char *out[2])
{
    if (k == 0) { if (lr_c0.s.value) { out[0] = lr_c0.s.value; return 1; } return 0; }
#if LR_CASE == 1
    out[0] = lr_list2[0]; out[1] = lr_list2[1]; return 2;
#else
    out[0] = lr_c1s.s.value; return 1;
#endif
}
static void lr_check_routing(const char *when)
{
    unsigned x, s, k, i;
    (void)when;
    for (x = 0; x < 2; x++) for (s = 0; s < LOG_NUM_SEVERITIES; s++) {
        const char *want[5]; unsigned n = 0; int specified = 0;
        struct log_destination_vector *v = &lr_type[x].t.logs[s];
        for (k = 0; k < 2; k++) {
            const char *d[2]; unsigned nd;
            if (in_lr.err[k] || in_lr.ty[k] != x || !((in_lr.mask[k] >> s) & 1)) continue;
            specified = 1;
            nd = lr_entry_dests(k, d);
            for (i = 0; i < nd; i++) want[n++] = d[i];
        }
        if (!specified && s >= LOG_WARNING && lr_type[x].t.default_target) want[n++] = lr_type[x].t.default_target;
        V_ASSERT(v->used == n, "C18: a (facility, severity) pair has exactly the destinations the current section maps it to");
        for (i = 0; i < 5; i++) if (i < n && i < v->used)
            V_ASSERT(v->vec[i] && !strcmp(v->vec[i]->name, want[i]), "C18: ... those destinations, in section order");
    }
}

#define LR_SET(E0, T0, M0, N0, E1, T1, M1) do { in_lr.err[0] = E0; in_lr.ty[0] = T0; in_lr.mask[0] = M0; in_lr.v0null = N0; \
                                                 in_lr.err[1] = E1; in_lr.ty[1] = T1; in_lr.mask[1] = M1; } while (0)
void h_log_rescan(void)
{
    static struct conf_node_object root;
    struct log_destination *da, *dold;
    struct log_destination **pv;
    unsigned i, live_old = 0, refd_a = 0, refd_old = 0, x, s;
    V_IN(in_lr);
    V_ASSUME(in_lr.old_spec < 64);
    /* the entries' readings are fixed per job (a symbolic facility / severity set makes the set of
     * open destinations symbolic, which the symbolic executor does not get through):
     *   err  ty(0 "*", 1 "t", 2 unknown)  severity mask  */
#if LR_CASE == 0      /* t.>=warning -> a ; t.info,warning -> b ; then entry 1 edited in place */
    LR_SET(0, 1, 0x38, 0,   0, 1, 0x0c);
#elif LR_CASE == 1    /* *.* -> a ; t.error -> (b, a) */
    LR_SET(0, 0, 0x3f, 0,   0, 1, 0x10);
#elif LR_CASE == 2    /* unknown syntax ; t.debug -> b ; facility t has a default target */
    LR_SET(1, 1, 0x3f, 0,   0, 1, 0x01);
#elif LR_CASE == 3    /* t.warning without value ; unknown facility */
    LR_SET(0, 1, 0x08, 1,   0, 2, 0x3f);
#else                 /* both entries name the same destination for the same pairs */
    LR_SET(0, 1, 0x3f, 0,   0, 1, 0x3f);
#endif
    V_ASSUME(in_lr.old_ref[0] >= 0 && in_lr.old_ref[0] < 1000 && in_lr.old_ref[1] >= 0 && in_lr.old_ref[1] < 1000);
    lr_vt.type_name = "g"; lr_vt.open = lr_open; lr_vt.close = lr_close; lr_vt.log = ghost_log;
    /* facilities "*" < "t" */
    /* (file-scope objects start zeroed; a memset would turn their fields into byte-level terms) */
    lr_type[0].t.name = "*"; lr_type[1].t.name = "t";
#if LR_CASE == 2
    lr_type[1].t.default_target = "g:old";
#endif
    lr_type[0].n.next = &lr_type[1].n; lr_type[1].n.prev = &lr_type[0].n;
    log_types.compare = set_compare_charp; log_types.cleanup = log_type_cleanup; log_types.root = &lr_type[0].n; log_types.count = 2;
    log_default = &lr_type[0].t; log_core = NULL;
    /* destination types: "g" */
    {   static struct { struct set_node n; struct log_destination_vtable v; } vt;
        vt.v = lr_vt; log_vtables.compare = set_compare_charp; log_vtables.root = &vt.n; log_vtables.count = 1; }
    /* previous state: "g:a" and "g:old" are open and routed from t.warning */
    da = lr_mkdest("g:a", in_lr.old_ref[0]); dold = lr_mkdest("g:old", in_lr.old_ref[1]); lr_opened = 0;
    set_node(da)->next = set_node(dold); set_node(dold)->prev = set_node(da);
    log_destinations.compare = set_compare_charp; log_destinations.cleanup = log_destination_cleanup; log_destinations.root = set_node(da); log_destinations.count = 2;
    pv = malloc(4 * sizeof(*pv)); V_ASSUME(pv != NULL); pv[0] = da; pv[1] = dold;
    lr_type[1].t.logs[LOG_WARNING].vec = pv; lr_type[1].t.logs[LOG_WARNING].size = 4; lr_type[1].t.logs[LOG_WARNING].used = 2;
    lr_type[1].t.specified.bits[0] = in_lr.old_spec;
    /* the section: entry 0 a string (possibly without value), entry 1 a string or a two-item list */
    root.base.name = "logs"; root.base.type = CONF_OBJECT;
    lr_c0.s.base.name = "e0"; lr_c0.s.base.type = CONF_STRING; lr_c0.s.base.parent = &root; lr_c0.s.value = in_lr.v0null ? NULL : "g:a";
    lr_c1s.s.base.name = "e1"; lr_c1s.s.base.type = CONF_STRING; lr_c1s.s.base.parent = &root;
    lr_c1s.s.value = (LR_CASE == 4) ? "g:a" : "g:b";
    lr_list2[0] = "g:b"; lr_list2[1] = "g:a";
    lr_c1l.l.base.name = "e1"; lr_c1l.l.base.type = CONF_STRING_LIST; lr_c1l.l.base.parent = &root;
    lr_c1l.l.value.vec = lr_list2; lr_c1l.l.value.used = 2; lr_c1l.l.value.size = 2;
    lr_child[0] = &lr_c0.s.base; lr_child[1] = (LR_CASE == 1) ? &lr_c1l.l.base : &lr_c1s.s.base;
    {   struct set_node *n0 = &lr_c0.n, *n1 = (LR_CASE == 1) ? &lr_c1l.n : &lr_c1s.n;
        n0->next = n1; n1->prev = n0; root.contents.root = n0; root.contents.count = 2; }
    conf.root = &root;

    log_rescan_conf(&root.base);                                     /* REAL */

    lr_check_routing("after the scan");
    /* destinations: referenced ones stay open, unreferenced ones are closed exactly once */
    for (x = 0; x < 2; x++) for (s = 0; s < LOG_NUM_SEVERITIES; s++) for (i = 0; i < 4; i++)
        if (i < lr_type[x].t.logs[s].used) { if (lr_type[x].t.logs[s].vec[i] == da) refd_a = 1; if (lr_type[x].t.logs[s].vec[i] == dold) refd_old = 1; }
    for (i = 0; i < 4; i++) if (i < lr_n_closed) { if (lr_closed[i] == da) V_ASSERT(!refd_a, "C18: a destination still routed to is not closed"); if (lr_closed[i] == dold) { V_ASSERT(!refd_old, "C18: a destination still routed to is not closed"); live_old++; } }
    V_ASSERT(refd_old || live_old == 1, "C18: a destination the new section no longer references is closed, once");
    V_ASSERT(lr_n_closed <= 2, "C18: nothing is closed twice");
    V_ASSERT(lr_child[0]->hook != NULL && lr_child[1]->hook != NULL, "C18: every entry of the section carries a change hook (full rescan on any change inside the section)");

    /* an in-place edit of entry 1's value (config.c runs the edited node's hook): the routing follows */
#if LR_CASE == 0
    lr_c1s.s.value = "g:a";
    if (lr_child[1]->hook) lr_child[1]->hook(lr_child[1]);          /* REAL hook */
    lr_check_routing("after an in-place edit");
#endif
    V_CANARY();
}
