/* harness/h_set_ops.c - C19: one real set operation from EVERY well-formed set of at most
 * SETN elements, followed by an audit against the mathematical sorted map.
 *
 * This is the inductive step "WF(set) && view(set)=V  ==op==>  WF(set') && view(set')=f(V)",
 * so every *history* of operations is covered for sets that stay within SETN elements
 * (bounded stand-in: SETN is in the job id; the shape space is complete below the bound:
 * every binary-search-tree shape over the sorted keys, not only the splay-reachable ones).
 */
#include "vh.h"
#include "spec/set.contracts.h"
#include "spec/ghost.h"

#ifndef SETN
#define SETN 3
#endif
#define MAXN (SETN + 1)

struct elt {
    struct set_node node;
    int key;      /* set_node_data(node) points here: the comparator reads this int */
    int id;       /* ghost identity of the element */
};

/* symbolic inputs */
unsigned int in_n;                         /* number of elements, 0..SETN */
struct { int k[SETN]; } in_keys;           /* strictly increasing */
struct { unsigned char pick[SETN]; } in_shape;   /* root choice per non-empty interval */
int in_datum;                              /* key argument of the operation */
int in_nodispose;

static struct elt *el[MAXN];               /* el[i] = element with the i-th smallest key */
static int cleaned[MAXN + 1];              /* ghost: how often cleanup ran on id */
static unsigned int pick_ix;
static struct set the_set;

static void ghost_cleanup(void *data)
{
    struct elt *e = (struct elt *)((struct set_node *)data - 1);
    cleaned[e->id]++;
}

static struct set_node *build(unsigned int lo, unsigned int hi)
{
    unsigned int r;
    if (lo >= hi)
        return NULL;
    r = in_shape.pick[pick_ix++];
    V_ASSUME(r >= lo && r < hi);
    el[r]->node.l = build(lo, r);
    el[r]->node.r = build(r + 1, hi);
    return &el[r]->node;
}

static void make_set(void)
{
    unsigned int i;
    V_IN(in_n); V_IN(in_keys); V_IN(in_shape); V_IN(in_datum); V_IN(in_nodispose);
    V_ASSUME(in_n <= SETN);
    for (i = 0; i < SETN; i++) {
        if (i < in_n) {
            if (i > 0)
                V_ASSUME(in_keys.k[i - 1] < in_keys.k[i]);
            el[i] = malloc(sizeof(struct elt));
            V_ASSUME(el[i] != NULL);
            el[i]->key = in_keys.k[i];
            el[i]->id = (int)i;
        }
    }
    for (i = 0; i < SETN; i++) {
        if (i < in_n) {
            el[i]->node.prev = i > 0 ? &el[i - 1]->node : NULL;
            el[i]->node.next = i + 1 < in_n ? &el[i + 1]->node : NULL;
        }
    }
    pick_ix = 0;
    the_set.compare = set_compare_int;
    the_set.cleanup = ghost_cleanup;
    the_set.count = in_n;
    the_set.root = build(0, in_n);
}

/* ---- audit: the concrete structure against an expected sorted sequence of elements ---- */
static struct elt *expect[MAXN];
static unsigned int n_expect;
static unsigned int walk_ix;
static int audit_ok;

static void walk(struct set_node *n, unsigned int depth)
{
    struct elt *e;
    if (!n)
        return;
    if (depth > MAXN) { audit_ok = 0; return; }       /* cycle or too deep */
    walk(n->l, depth + 1);
    e = (struct elt *)n;
    if (walk_ix >= n_expect || expect[walk_ix] != e)
        audit_ok = 0;
    walk_ix++;
    walk(n->r, depth + 1);
}

static void audit(const char *what)
{
    unsigned int i;
    struct set_node *it;
    (void)what;
    /* tree: in-order walk yields exactly the expected elements in key order */
    audit_ok = 1; walk_ix = 0;
    walk(the_set.root, 0);
    V_ASSERT(audit_ok && walk_ix == n_expect, "C19: in-order walk of the tree is the expected sorted element sequence");
    V_ASSERT(the_set.count == n_expect, "C19: size agrees with the mathematical set");
    /* threaded list forwards from set_first and backwards */
    it = set_first(&the_set);
    for (i = 0; i < MAXN; i++) {
        if (i < n_expect) {
            V_ASSERT(it == &expect[i]->node, "C19: first/next iteration visits the elements in key order");
            V_ASSERT(set_prev(it) == (i > 0 ? &expect[i - 1]->node : NULL), "C19: prev links mirror the key order");
            it = set_next(it);
        }
    }
    V_ASSERT(it == NULL, "C19: iteration ends after the last element");
    for (i = 1; i < MAXN; i++)
        if (i < n_expect)
            V_ASSERT(expect[i - 1]->key < expect[i]->key, "C19: keys strictly increasing");
}

static unsigned int pos_of(int key, int *found)
{
    unsigned int i, p = in_n;
    *found = 0;
    for (i = 0; i < SETN; i++)
        if (i < in_n && p == in_n && el[i]->key >= key) {
            p = i;
            *found = (el[i]->key == key);
        }
    return p;   /* index of the first key >= key, in_n if none */
}

static void expect_cleanups(int victim, int disposed)
{
    unsigned int i;
    for (i = 0; i < MAXN + 1; i++)
        V_ASSERT(cleaned[i] == ((int)i == victim && disposed ? 1 : 0),
                 "C19: cleanup runs exactly once on a disposed element and never on a surviving one");
}

void h_set_insert(void)
{
    struct elt *nu;
    unsigned int p, i; int found;
    make_set();
    nu = malloc(sizeof(*nu));
    V_ASSUME(nu != NULL);
    nu->key = in_datum; nu->id = MAXN;
    p = pos_of(in_datum, &found);
    set_insert(&the_set, &nu->node);
    n_expect = 0;
    for (i = 0; i < SETN; i++) {
        if (i == p) expect[n_expect++] = nu;
        if (i < in_n && !(found && i == p)) expect[n_expect++] = el[i];
    }
    if (p == in_n && p == SETN) expect[n_expect++] = nu;
    audit("insert");
    V_ASSERT(the_set.root == &nu->node, "C19: the inserted node is in the set");
    expect_cleanups(found ? (int)p : -1, 1);
    V_CANARY();
}

void h_set_remove(void)
{
    unsigned int p, i; int found, r;
    make_set();
    p = pos_of(in_datum, &found);
    r = set_remove(&the_set, &in_datum, in_nodispose);
    V_ASSERT(r == (found ? 1 : 0), "C19: set_remove reports whether the key was a member");
    n_expect = 0;
    for (i = 0; i < SETN; i++)
        if (i < in_n && !(found && i == p)) expect[n_expect++] = el[i];
    audit("remove");
    expect_cleanups(found ? (int)p : -1, !in_nodispose);
    if (found && in_nodispose)
        V_ASSERT(el[p]->key == in_datum, "C19: an undisposed removed element stays valid for its owner");
    V_CANARY();
}

void h_set_find(void)
{
    unsigned int p, i; int found; void *r;
    make_set();
    p = pos_of(in_datum, &found);
    r = set_find(&the_set, &in_datum);
    V_ASSERT(r == (found ? (void *)&el[p]->key : NULL), "C19: set_find returns the member with that key, else NULL");
    n_expect = 0;
    for (i = 0; i < SETN; i++)
        if (i < in_n) expect[n_expect++] = el[i];
    audit("find");
    expect_cleanups(-1, 0);
    V_ASSERT(set_find(NULL, &in_datum) == NULL && set_find(&the_set, NULL) == NULL, "C19: NULL set/key finds nothing");
    V_CANARY();
}

void h_set_lower(void)
{
    unsigned int p, i; int found; struct set_node *r;
    make_set();
    p = pos_of(in_datum, &found);
    r = set_lower(&the_set, &in_datum);
    V_ASSERT(r == (p < in_n ? &el[p]->node : NULL), "C19: set_lower returns the first element whose key is >= the datum");
    n_expect = 0;
    for (i = 0; i < SETN; i++)
        if (i < in_n) expect[n_expect++] = el[i];
    audit("lower");
    expect_cleanups(-1, 0);
    V_CANARY();
}

void h_set_clear(void)
{
    unsigned int i;
    make_set();
    set_clear(&the_set, in_nodispose);
    n_expect = 0;
    audit("clear");
    V_ASSERT(the_set.root == NULL, "C19: a cleared set is empty");
    for (i = 0; i < MAXN + 1; i++)
        V_ASSERT(cleaned[i] == (i < in_n && !in_nodispose ? 1 : 0),
                 "C19: clear with disposal cleans every element exactly once, without disposal none");
    V_CANARY();
}
