/* harness/h_iauth_core.c - per-function obligations on modules/iauth_core.c
 * (C01, C02, C03, C05, C06, C10).  See spec/iauth_model.h for the contracts of callees. */
#include "vh.h"
#include "units/u_iauth.c"
#include "spec/iauth_model.h"

/* ------------------------------------------------------------------ symbolic inputs */
struct iauth_request in_req;          /* every scalar / text field arbitrary */
unsigned int in_required;             /* iauth_flags: what the loaded modules require */
int in_have_timer;
int in_sock; short in_event;
struct { char s[80]; } in_text;       /* a server-supplied argument (over-long allowed) */
struct { char s[80]; } in_text2;
int in_argc;
int in_modcb_holds, in_modcb_soft;    /* what a module callback does to the counters */

static struct iauth_request *req;

/* a live, undecided request with arbitrary contents, indexed in the request table */
static struct iauth_request *mk_request(void)
{
    struct set_node *node = malloc(sizeof(struct set_node) + sizeof(struct iauth_request));
    struct iauth_request *r;
    V_ASSUME(node != NULL);
    r = set_node_data(node);
    V_IN(in_req); V_IN(in_required); V_IN(in_have_timer);
    *r = in_req;
    /* text fields are NUL-terminated (INV: established by the bounded copies, C06) */
    r->hostname[HOSTLEN] = 0; r->cli_username[USERLEN] = 0; r->auth_username[USERLEN] = 0;
    r->nickname[NICKLEN] = 0; r->realname[REALLEN] = 0; r->account[ACCOUNTLEN] = 0;
    r->class[CLASSLEN] = 0; r->text_addr[IRC_NTOP_MAX - 1] = 0;
    r->timeout = in_have_timer ? malloc(1) : NULL;
    r->data.compare = set_compare_voidp; r->data.cleanup = NULL; r->data.root = NULL; r->data.count = 0;
    V_ASSUME(!RESPONDED(r));                       /* INV: live requests are undecided */
    iauth_flags.bits[0] = in_required & ~(1u << IAUTH_RESPONDED);   /* calc_iauth_flags, proved in C02.calc_flags */
    G.req = r; G.live = 1;
    return r;
}

/* ====================================================================== the gate (C02) */
void h_check_request(void)
{
    int ready, open, sd;
    req = mk_request();
    ready = spec_gate_ready(req); open = spec_gate_open(req); sd = SOFT_DONE(req);
    iauth_check_request(req);                     /* REAL; callees iauth_accept/iauth_soft_done by contract */
    V_ASSERT((G.accepts == 1) == (open != 0), "C02/C03: the client is accepted exactly when no hard hold, not yet decided, all required data (or hurry-up) and no awaited service");
    V_ASSERT(G.accepts <= 1 && G.verdicts <= 1, "C01: at most one verdict");
    V_ASSERT((G.softdones == 1) == (ready && !open && !sd), "C01: soft-done exactly when ready but awaiting services and not sent before");
    V_ASSERT(G.softdones <= 1, "C01: at most one soft-done");
    V_ASSERT(G.kills == 0, "C02: the gate never rejects");
    V_ASSERT(G.live == !open, "C01/C10: accepted requests are retired, others stay");
    V_CANARY();
}

/* ====================================================== verdict functions (C01, C05, C10) */
void h_accept(void)
{
    char acct0, class0;
    req = mk_request();
    acct0 = req->account[0];
    iauth_accept(req);                            /* REAL; iauth_send, notify_pre_registered, parse_registered by contract */
    V_ASSERT(G.verdicts == 1 && G.msgs - G.usernames == 1, "C01: exactly one verdict line and nothing else");
    V_ASSERT(G.verdict_kind == (acct0 ? 'R' : 'D'), "C05: reported with an account stamp (R) exactly when the request carries one, else D");
    V_ASSERT(G.pre_registered == 1, "C11: class assignment hook runs just before acceptance");
    V_ASSERT(G.retires == 1 && !G.live, "C01/C10: an accepted request is retired exactly once");
    V_ASSERT(G.msgs_after_retire == 0, "C01: silence after the verdict");
    V_CANARY();
}

void h_accept_args(void)
{
    /* same, keeping the record alive to inspect the arguments: retire by model does not free here */
    req = mk_request();
    iauth_accept(req);
    V_CANARY();
}

void h_kill(void)
{
    req = mk_request();
    V_IN(in_text);
    in_text.s[79] = 0;
#ifdef QUIET
    iauth_quietly_kill(req, in_text.s);
#else
    iauth_kill(req, in_text.s);
#endif
    V_ASSERT(G.verdicts == 1 && G.msgs == 1 && G.verdict_kind == 'k', "C01: exactly one reject line");
    V_ASSERT(G.verdict_a0 == in_text.s, "C05: the refusal text is relayed verbatim");
    V_ASSERT(G.retires == 1 && !G.live, "C01/C10: a rejected request is retired exactly once");
    V_CANARY();
}

void h_soft_done(void)
{
    req = mk_request();
    iauth_soft_done(req);
    V_ASSERT(G.softdones == 1 && G.msgs == 1 && G.verdicts == 0, "C01: soft-done is one 'd' line");
    V_ASSERT(SOFT_DONE(req), "C01: the soft-done flag is set so it is never repeated");
    V_ASSERT(G.live, "soft-done does not retire");
    V_CANARY();
}

/* ============================================================= timeout handler (C02, C03) */
void h_timeout(void)
{
    int ready;
    req = mk_request();
    V_IN(in_sock); V_IN(in_event);
    ready = spec_gate_ready(req);
    iauth_timeout(in_sock, in_event, req);        /* REAL; gate by contract */
    V_ASSERT(G.gate_evals == 1, "C03: the timeout handler re-evaluates the gate");
    V_ASSERT((G.accepts == 1) == (ready != 0), "C03: an expired timeout releases every soft hold: a ready client is accepted in this step");
    V_ASSERT(!G.live || req->soft_holds == 0, "C03: after expiry no soft hold remains");
    V_ASSERT(!G.live || req->holds == in_req.holds, "C02: the timeout releases soft holds only (an unmet +! still blocks)");
    V_CANARY();
}
