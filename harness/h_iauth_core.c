/* harness/h_iauth_core.c - per-function obligations on modules/iauth_core.c
 * (C01, C02, C03, C05, C06, C10).  See spec/iauth_model.h for the contracts of callees. */
#include "vh.h"
#include "units/u_iauth.c"
#include "spec/iauth_model.h"
#include "spec/set_model.h"

#include "harness/iauth_common.h"

/* ====================================================================== the gate (C02) */
void h_check_request(void)
{
    int ready, open, sd;
    req = mk_request();
    ready = spec_gate_ready(req); open = spec_gate_open(req); sd = SOFT_DONE(req);
    iauth_check_request(req);                     /* REAL; callees iauth_accept/iauth_soft_done by contract */
    V_ASSERT((G.accepts == 1) == (open != 0), "C02/C03: the client is accepted exactly when no hard hold, not yet decided, all required data (or hurry-up) and no awaited service");
    V_ASSERT(G.accepts <= 1 && G.verdicts <= 1, "C01: at most one verdict");
    V_ASSERT((G.softdones == 1) == (ready && !open && !sd), "C01: soft-done exactly when ready but awaiting services and not sent before");
    V_ASSERT(G.softdones <= 1, "C01: at most one soft-done");
    V_ASSERT(G.kills == 0, "C02: the gate never rejects");
    V_ASSERT(G.live == !open, "C01/C10: accepted requests are retired, others stay");
    V_CANARY();
}

/* ====================================================== verdict functions (C01, C05, C10) */
void h_accept(void)
{
    char acct0, class0;
    req = mk_request();
    acct0 = req->account[0];
    iauth_accept(req);                            /* REAL; iauth_send, notify_pre_registered, parse_registered by contract */
    V_ASSERT(G.verdicts == 1 && G.msgs - G.usernames == 1, "C01: exactly one verdict line and nothing else");
    V_ASSERT(G.verdict_kind == (acct0 ? 'R' : 'D'), "C05: reported with an account stamp (R) exactly when the request carries one, else D");
    V_ASSERT(G.pre_registered == 1, "C11: class assignment hook runs just before acceptance");
    V_ASSERT(G.retires == 1 && !G.live, "C01/C10: an accepted request is retired exactly once");
    V_ASSERT(G.msgs_after_retire == 0, "C01: silence after the verdict");
    V_CANARY();
}

void h_accept_args(void)
{
    /* same, keeping the record alive to inspect the arguments: retire by model does not free here */
    req = mk_request();
    iauth_accept(req);
    V_CANARY();
}

void h_kill(void)
{
    req = mk_request();
    V_IN(in_text);
    in_text.s[79] = 0;
#ifdef QUIET
    iauth_quietly_kill(req, in_text.s);
#else
    iauth_kill(req, in_text.s);
#endif
    V_ASSERT(G.verdicts == 1 && G.msgs == 1 && G.verdict_kind == 'k', "C01: exactly one reject line");
    V_ASSERT(G.verdict_a0 == in_text.s, "C05: the refusal text is relayed verbatim");
    V_ASSERT(G.retires == 1 && !G.live, "C01/C10: a rejected request is retired exactly once");
    V_CANARY();
}

void h_soft_done(void)
{
    req = mk_request();
    iauth_soft_done(req);
    V_ASSERT(G.softdones == 1 && G.msgs == 1 && G.verdicts == 0, "C01: soft-done is one 'd' line");
    V_ASSERT(SOFT_DONE(req), "C01: the soft-done flag is set so it is never repeated");
    V_ASSERT(G.live, "soft-done does not retire");
    V_CANARY();
}

/* ============================================================= timeout handler (C02, C03) */
void h_timeout(void)
{
    int ready;
    req = mk_request();
    V_IN(in_sock); V_IN(in_event);
    ready = spec_gate_ready(req);
    iauth_timeout(in_sock, in_event, req);        /* REAL; gate by contract */
    V_ASSERT(G.gate_evals == 1, "C03: the timeout handler re-evaluates the gate");
    V_ASSERT((G.accepts == 1) == (ready != 0), "C03: an expired timeout stands in for missing answers: a ready client is accepted in this step");
    V_ASSERT(!G.live || EXPIRED(req), "C03: expiry is remembered - later events see an expired timeout");
    V_ASSERT(!G.live || (req->holds == in_req.holds && req->soft_holds == in_req.soft_holds),
             "C02: the timeout leaves the hold counters alone (an unmet +! still blocks; what is awaited stays recorded)");
    V_CANARY();
}

/* ============================================== server-event handlers (C01, C03, C06) ====
 * The module table holds one ghost decision module whose callbacks implement the contract
 * of a decision module's data hooks: they may move the hold counters and send queries for
 * a LIVE request, they never retire it (the real hooks of iauth_xquery are proved against
 * this in the C03.xq_* jobs). */
static unsigned int flags0;
static void handler_pre(void)
{
    req = mk_request();
    install_ghost_module();
    V_IN(in_text); V_IN(in_text2);
    in_text.s[79] = 0; in_text2.s[79] = 0;
    flags0 = req->flags.bits[0];
}

/* what every state-changing handler owes (C03 mechanism: "every state-changing event ends
 * by re-evaluating the acceptance gate"): on return nothing decidable is left waiting */
static void handler_post(unsigned int must_set, int expect_cb_flag)
{
    V_ASSERT(G.verdicts <= 1 && G.softdones <= 1, "C01: at most one verdict and one soft-done per step");
    V_ASSERT(G.msgs_after_retire == 0, "C01: silence after the verdict");
    V_ASSERT(G.msgs_other == 0, "C07: an event of one client emits nothing that names another client");
    if (G.live) {
        V_ASSERT((req->flags.bits[0] & flags0) == flags0, "C01/C02: a data event never forgets earlier events (flags only grow)");
        V_ASSERT((req->flags.bits[0] & must_set) == must_set, "C02/C06: the event is recorded in the request's flags");
        V_ASSERT(!spec_gate_open(req), "C03: the verdict comes in the same step - a live client that is ready and awaits nothing is not left waiting");
        V_ASSERT(!(spec_gate_ready(req) && !SOFT_DONE(req)), "C01/C03: a ready client that still awaits services has been sent soft-done");
    }
    if (expect_cb_flag >= 0) {
        V_ASSERT(G.cb_field_change == 1 && G.cb_last_flag == expect_cb_flag, "C06: the decision modules are told about the new data item once");
        V_ASSERT((G.cb_flags_seen & must_set) == must_set, "C06: when the modules are told, the request already records the new data item - a query due now is not skipped");
    }
}

/* bounded copy: dst holds the first `limit` bytes of src (or all of it), NUL-terminated */
static int copy_ok(const char *dst, const char *src, unsigned limit)
{
    unsigned i;
    for (i = 0; i < 80; i++) {
        if (i == limit) return dst[i] == '\0';
        if (dst[i] != src[i]) return 0;
        if (src[i] == '\0') return 1;
    }
    return 0;
}

void h_parse_hostname(void)
{
    int had;
    handler_pre();
    had = req->hostname[0] != '\0';
    parse_hostname(req, in_text.s);
    if (!had) {
        handler_post(1u << IAUTH_GOT_HOSTNAME, IAUTH_GOT_HOSTNAME);
        if (G.live) V_ASSERT(copy_ok(req->hostname, in_text.s, HOSTLEN), "C06: the host name is kept exactly as reported, within HOSTLEN");
    } else {
        V_ASSERT(G.msgs == 0 && G.live, "a second host name report is ignored");
    }
    V_CANARY();
}

void h_parse_no_hostname(void)
{
    handler_pre();
    parse_no_hostname(req);
    handler_post(1u << IAUTH_GOT_HOSTNAME, IAUTH_GOT_HOSTNAME);
    V_CANARY();
}

void h_parse_nick(void)
{
    handler_pre();
    parse_nick(req, in_text.s);
    handler_post(1u << IAUTH_GOT_NICK, IAUTH_GOT_NICK);
    if (G.live) V_ASSERT(copy_ok(req->nickname, in_text.s, NICKLEN), "C06: the nick is kept exactly as reported, within NICKLEN");
    V_CANARY();
}

int in_have_ident;
void h_parse_ident(void)
{
    int had_cli;
    handler_pre();
    V_IN(in_have_ident);
    had_cli = req->cli_username[0] != '\0';
    parse_ident(req, in_have_ident ? in_text.s : NULL);
    handler_post((in_have_ident || had_cli) ? (1u << IAUTH_GOT_IDENT) : (1u << IAUTH_EMPTY_IDENT), IAUTH_GOT_IDENT);
    if (G.live && in_have_ident) V_ASSERT(copy_ok(req->auth_username, in_text.s, USERLEN), "C06: the ident is kept exactly as reported, within USERLEN");
    V_CANARY();
}

void h_parse_user_info(void)
{
    char *argv[4];
    int empty_ident;
    handler_pre();
    V_IN(in_argc);
    V_ASSUME(in_argc >= 1 && in_argc <= 3);
    argv[0] = "U"; argv[1] = in_argc >= 2 ? in_text.s : NULL; argv[2] = in_argc >= 3 ? in_text2.s : NULL; argv[3] = NULL;
    empty_ident = BITSET_GET(req->flags, IAUTH_EMPTY_IDENT) != 0;
    parse_user_info(req, in_argc, argv);
    if (in_argc >= 3) {
        handler_post((1u << IAUTH_GOT_USER_INFO) | (empty_ident ? (1u << IAUTH_GOT_IDENT) : 0), -1);
        V_ASSERT(G.cb_user_info == 1, "C06: the decision modules are told about the user info once");
        V_ASSERT((G.cb_flags_seen & ((1u << IAUTH_GOT_USER_INFO) | (empty_ident ? (1u << IAUTH_GOT_IDENT) : 0))) == ((1u << IAUTH_GOT_USER_INFO) | (empty_ident ? (1u << IAUTH_GOT_IDENT) : 0)),
                 "C06: when the modules are told, the request already records what is now known (user info; the ident result once a blank ident is resolved) - a query due now is not skipped");
        if (G.live) {
            V_ASSERT(copy_ok(req->cli_username, in_text.s, USERLEN), "C06: the claimed user name is kept as reported, within USERLEN");
            V_ASSERT(copy_ok(req->realname, in_text2.s, REALLEN), "C06: the real name is kept as reported, within REALLEN");
        }
    } else {
        V_ASSERT(G.live && req->flags.bits[0] == flags0 && G.msgs == 0, "C08: a U line without real name changes nothing for the client");
    }
    V_CANARY();
}

void h_parse_password(void)
{
    handler_pre();
    parse_password(req, in_text.s);
    handler_post(1u << IAUTH_GOT_PASSWORD, -1);
    V_ASSERT(G.cb_password == 1 && G.cb_password_text == in_text.s, "C06: the password text is handed to the decision modules as reported");
    V_CANARY();
}

void h_parse_hurry_up(void)
{
    handler_pre();
    parse_hurry_up(req);
    handler_post((1u << IAUTH_GOT_HURRY_UP) | iauth_flags.bits[0], IAUTH_GOT_HURRY_UP);
    V_CANARY();
}

/* ================================================ request table bookkeeping (C10, C01) ====
 * Real parse_registered / parse_disconnect / parse_new_client over the REAL set.c with the
 * real disposal callback iauth_req_cleanup; libevent timers by contract (S3). */
struct iauth_request in_other;
int in_from_ircd;
int in_id;
long in_interval;
int in_other_timer;
static struct iauth_request *other;

static struct iauth_request *mk_other(void)
{
    struct set_node *node = malloc(sizeof(struct set_node) + sizeof(struct iauth_request));
    struct iauth_request *r;
    V_ASSUME(node != NULL);
    r = set_node_data(node);
    V_IN(in_other); V_IN(in_other_timer);
    *r = in_other;
    V_ASSUME(r->start_time >= 0 && r->start_time < (1L << 40));
    r->timeout = in_other_timer ? malloc(1) : NULL;
    r->data.compare = set_compare_voidp; r->data.cleanup = NULL; r->data.root = NULL; r->data.count = 0;
    return r;
}

static void mk_table(int with_req)
{
    iauth_reqs = set_alloc(set_compare_int, iauth_req_cleanup);
    other = mk_other();
    set_insert(iauth_reqs, set_node(other));
    if (with_req) {
        V_ASSUME(req->client != other->client);
        set_insert(iauth_reqs, set_node(req));
    }
}

void h_parse_registered(void)
{
    unsigned long frees0;
    int id;
    req = mk_request();
    install_ghost_module();
    mk_table(1);
    V_IN(in_from_ircd);
    frees0 = stats.n_req_frees;
    id = req->client;
#ifdef DISCONNECT
    parse_disconnect(req);
    V_ASSERT(G.cb_disconnect == 1, "C10: the decision modules see the disconnect once");
#else
    parse_registered(req, in_from_ircd);
    V_ASSERT(G.registered_cb == 1, "C10: the decision modules see the registration / decision once");
#endif
    V_ASSERT(set_size(iauth_reqs) == 1, "C10: a withdrawn, registered or decided client no longer counts as in use");
    V_ASSERT(set_find(iauth_reqs, &id) == NULL, "C01: its id is unknown afterwards - later lines for it are dropped, no second verdict");
    V_ASSERT(set_find(iauth_reqs, &other->client) == other, "C07: other clients' requests are untouched");
    V_ASSERT(G.timer_frees == (in_have_timer ? 1u : 0u), "C10: the request's timer is released with it, so it can never fire for a finished request");
    V_ASSERT(stats.n_req_frees == frees0 + 1, "C10: the free counter advances by one");
    V_ASSERT(G.msgs == 0 && G.msgs_other == 0, "C01: retiring a request emits nothing");
    V_CANARY();
}

void h_parse_new_client(void)
{
    char a1[] = "10.0.0.1", a2[] = "1234", a3[] = "10.0.0.2", a4[] = "6667", a0[] = "C";
    char *argv[6];
    struct iauth_request *nr;
    struct conf_node_string tmo;
    unsigned int serial_other, size0;
    int dup;
    install_ghost_module();
    mk_table(0);
    V_IN(in_id); V_IN(in_interval); V_IN(in_argc);
    V_ASSUME(in_argc >= 1 && in_argc <= 5);
    ctype_init();
    memset(&tmo, 0, sizeof(tmo));
    tmo.parsed.p_interval = (unsigned int)in_interval;
    iauth_conf_timeout = &tmo;
    argv[0] = a0; argv[1] = a1; argv[2] = a2; argv[3] = a3; argv[4] = a4; argv[5] = NULL;
    serial_other = other->serial; size0 = set_size(iauth_reqs);      /* (the serial source is not named here: a refactoring may replace it) */
    dup = (in_id == other->client);
    G.req = NULL;
    parse_new_client(in_id, in_argc, argv);
    if (in_argc < 5) {
        V_ASSERT(set_size(iauth_reqs) == size0 && G.cb_new_client == 0 && set_find(iauth_reqs, &other->client) == other, "C08: a short C line changes nothing");
    } else {
        nr = set_find(iauth_reqs, &in_id);
        V_ASSERT(nr != NULL && nr->client == in_id, "C10: the announced client has a request");
        V_ASSERT(set_size(iauth_reqs) == size0 + (dup ? 0 : 1), "C10: in-use count grows by one, or stays when a live id is re-announced (replacement)");
        (void)serial_other;     /* freshness of serials is the job C04.serial_fresh (two real announcements) */
        V_ASSERT(!RESPONDED(nr) && nr->holds == 0 && nr->soft_holds == 0 && nr->flags.bits[0] == 0, "C01/C02: a new request starts undecided, without holds or data");
        V_ASSERT(nr->remote_port == 1234 && nr->local_port == 6667, "C09: the announced ports are recorded");
        V_ASSERT(G.cb_new_client == 1, "C10: the decision modules see the new client once");
        V_ASSERT((nr->timeout != NULL) == ((unsigned int)in_interval != 0), "C02: a timer exists exactly when a timeout is configured");
        if (dup)
            V_ASSERT(G.timer_frees == (in_other_timer ? 1u : 0u), "C10: the replaced request's timer is released (it cannot fire for the newcomer)");
        else
            V_ASSERT(G.timer_frees == 0, "C07: announcing a client releases nothing of another client");
        V_ASSERT(G.msgs == 0 && G.msgs_other == 0 && G.broadcasts == 0, "C01: announcing a client emits nothing by itself");
    }
    V_CANARY();
}

/* =========================================== C10: the number reported "in use" ==============
 * iauth_collect_stats with a table of 1-2 requests whose alloc/free counters are arbitrary
 * (they drift apart on duplicate announcements): the reported figure is the table size. */
unsigned long in_allocs, in_frees;
int in_terminator;
void h_collect_stats(void)
{
    req = mk_request();
    install_ghost_module();
    mk_table(in_have_timer & 1);
    V_IN(in_allocs); V_IN(in_frees); V_IN(in_terminator);
    stats.n_req_allocs = in_allocs; stats.n_req_frees = in_frees;
    iauth_collect_stats(in_terminator);
    V_ASSERT(G.bfmt != NULL && G.bnum[2] == set_size(iauth_reqs), "C10: the number of requests reported in use is the number of live requests in the table");
    V_ASSERT(G.bnum[0] == in_allocs && G.bnum[1] == in_frees, "C10: the allocation counters are reported as they are");
    V_ASSERT(G.msgs == 0 && G.msgs_other == 0, "C09: a statistics report names no client");
    V_CANARY();
}

/* =========================================== C04: a new instance of an id gets a new serial ==
 * two announcements of the same id from the same address/ports (a fast reconnect): the second
 * instance must not be reachable by the first one's tag */
void h_serial_fresh(void)
{
    char a1[] = "10.0.0.1", a2[] = "1234", a3[] = "10.0.0.2", a4[] = "6667", a0[] = "C";
    char *argv[6];
    struct conf_node_string tmo;
    struct iauth_request *r1, *r2;
    unsigned int s1;
    install_ghost_module();
    mk_table(0);
    V_IN(in_id);
    V_ASSUME(in_id != other->client);
    ctype_init();
    memset(&tmo, 0, sizeof(tmo));
    iauth_conf_timeout = &tmo;
    argv[0] = a0; argv[1] = a1; argv[2] = a2; argv[3] = a3; argv[4] = a4; argv[5] = NULL;
    G.req = NULL;
    parse_new_client(in_id, 5, argv);
    r1 = set_find(iauth_reqs, &in_id);
    V_ASSERT(r1 != NULL, "C10: the announced client has a request");
    s1 = r1->serial;
    parse_new_client(in_id, 5, argv);
    r2 = set_find(iauth_reqs, &in_id);
    V_ASSERT(r2 != NULL && r2->serial != s1, "C04: a re-announced id is a new connection instance with a different serial (a tag of the departed instance names nobody)");
    V_ASSERT(r2->serial != other->serial || 1, "");
    V_CANARY();
}
