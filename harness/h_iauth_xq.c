/* harness/h_iauth_xq.c - per-function obligations on modules/iauth_xquery.c
 * (C02, C03, C04, C05, C06): one real entry point of the extension-query module from an
 * arbitrary state satisfying INV, callees of the core by contract (spec/iauth_model.h). */
#include "vh.h"
#include "units/u_iauth.c"
#include "spec/iauth_model.h"
#include "spec/set_model.h"
#include "harness/iauth_common.h"

#ifndef NSRV
#define NSRV 3
#endif

/* ------------------------------------------------------------------ symbolic inputs */
struct iauth_xquery_client in_cli;
struct { unsigned int used; unsigned char present[NSRV]; } in_tbl;
struct { unsigned int refs; int type; int configured; char name[3]; } in_srv0, in_srv1, in_srv2;
struct { char s[4]; } in_service;        /* service name on the reply line */
#ifndef REPLY_MAX
#define REPLY_MAX 40
#endif
struct { char s[REPLY_MAX]; } in_reply;         /* reply text */
int in_unlinked;                         /* 'x' notice instead of a reply */
int in_tag_valid;                        /* the routing tag names this client's current instance */
int in_expired;                          /* the request timeout has fired earlier */
int in_flag;                             /* which data item triggered the query builder */
struct { char s[40]; } in_pw;            /* password text */

static struct iauth_xquery_client *cli;
static struct iauth_xquery_service *srv[NSRV];
static struct iauth_xquery_service *vec_store[NSRV];

#ifdef SRV_STATIC
/* file-scope service records (fields stay concrete for the symbolic executor); only for entry
 * points that never free a service */
static struct { struct iauth_xquery_service s; char more[2]; } srv_obj[4];
static unsigned srv_next;
#endif
static struct iauth_xquery_service *mk_srv(unsigned refs, int type, int configured, const char *name)
{
#ifdef SRV_STATIC
    struct iauth_xquery_service *s = &srv_obj[srv_next++].s;
#else
    struct iauth_xquery_service *s = malloc(sizeof(*s) + 2);
    V_ASSUME(s != NULL);
#endif
    memset(s, 0, sizeof(*s));
    s->refs = refs; s->type = (enum iauth_xquery_type)type; s->configured = configured;
    s->name[0] = name[0]; s->name[1] = name[1]; s->name[2] = '\0';
    return s;
}

#define AWAITING(c) ((c)->ref_mask != 0)

/* the representation invariant of a live request and its xquery record (DESIGN section 4) */
static int inv_ok(const struct iauth_request *r, const struct iauth_xquery_client *c)
{
    unsigned i;
    if (RESPONDED(r)) return 0;
    /* C02: "+! takes a hard hold until an account is stamped" */
    if (r->holds != ((HIDDEN_ONLY(c) && r->account[0] == '\0') ? 1 : 0)) return 0;
    /* C02/C03: exactly one soft hold while any service is awaited */
    if (r->soft_holds != (AWAITING(c) ? 1 : 0)) return 0;
    if ((c->ref_mask & ~c->sent_mask) != 0) return 0;
    if ((c->more_mask & ~c->sent_mask) != 0) return 0;
    for (i = 0; i < NSRV; i++) {
        if (c->ref_mask & (1u << i)) {
            if (i >= iauth_xquery_services.used || srv[i] == NULL || srv[i]->refs < 1) return 0;
        }
    }
    if ((c->ref_mask >> NSRV) != 0 || (c->sent_mask >> NSRV) != 0 || (c->more_mask >> NSRV) != 0 || (c->ok_mask >> NSRV) != 0) return 0;
    if (r->auth_username[0] != '\0' && !BITSET_GET(r->flags, IAUTH_GOT_IDENT)) return 0;
    if (c->password[sizeof(c->password) - 1] != '\0') return 0;
    return 1;
}

static void xq_pre(void)
{
    struct set_node *node;
    unsigned i;
    req = mk_request();
    V_IN(in_cli); V_IN(in_tbl); V_IN(in_srv0); V_IN(in_srv1); V_IN(in_srv2); V_IN(in_expired);
    /* the client's xquery record, keyed by the module descriptor inside the request's own data set */
    node = malloc(sizeof(struct set_node) + sizeof(struct iauth_xquery_client));
    V_ASSUME(node != NULL);
    cli = set_node_data(node);
    *cli = in_cli;
    cli->key = &iauth_xquery;
    node->l = node->r = node->prev = node->next = NULL;
    req->data.root = node; req->data.count = 1;
    /* service table */
    V_ASSUME(in_tbl.used <= NSRV);
#ifdef SRV_T0
    in_srv0.type = SRV_T0; in_srv1.type = SRV_T1;      /* one job per pair of service protocols */
#endif
    srv[0] = in_tbl.present[0] ? mk_srv(in_srv0.refs, in_srv0.type, in_srv0.configured, in_srv0.name) : NULL;
    srv[1] = in_tbl.present[1] ? mk_srv(in_srv1.refs, in_srv1.type, in_srv1.configured, in_srv1.name) : NULL;
#if NSRV > 2
    srv[2] = in_tbl.present[2] ? mk_srv(in_srv2.refs, in_srv2.type, in_srv2.configured, in_srv2.name) : NULL;
#endif
    for (i = 0; i < NSRV; i++) {
        if (i >= in_tbl.used) srv[i] = NULL;
        vec_store[i] = srv[i];
        if (srv[i]) {
            V_ASSUME(srv[i]->type >= LOGIN && srv[i]->type <= COMBINED);
            V_ASSUME(srv[i]->name[0] != '\0' && srv[i]->name[0] != ' ');
            V_ASSUME(srv[i]->refs < 1000000 && srv[i]->queries < 1000000);
        }
    }
    /* service names are distinct (iauth_xquery_config_service keeps one entry per name) */
    if (srv[0] && srv[1]) V_ASSUME(strcmp(srv[0]->name, srv[1]->name) != 0);
#if NSRV > 2
    if (srv[0] && srv[2]) V_ASSUME(strcmp(srv[0]->name, srv[2]->name) != 0);
    if (srv[1] && srv[2]) V_ASSUME(strcmp(srv[1]->name, srv[2]->name) != 0);
#endif
    iauth_xquery_services.vec = vec_store;
    iauth_xquery_services.used = in_tbl.used;
    iauth_xquery_services.size = NSRV;
    /* prerequisite table as the module constructor builds it (proved in C06.prereq_table) */
    iauth_xquery_flags[LOGIN].bits[0] = 1u << IAUTH_GOT_PASSWORD;
    iauth_xquery_flags[LOGIN_IPR].bits[0] = (1u << IAUTH_GOT_HOSTNAME) | (1u << IAUTH_GOT_IDENT) | (1u << IAUTH_GOT_PASSWORD);
    iauth_xquery_flags[DRONECHECK].bits[0] = (1u << IAUTH_GOT_HOSTNAME) | (1u << IAUTH_GOT_IDENT) | (1u << IAUTH_GOT_NICK) | (1u << IAUTH_GOT_USER_INFO);
    iauth_xquery_flags[COMBINED].bits[0] = iauth_xquery_flags[DRONECHECK].bits[0];
    G.expired = EXPIRED(req);
    V_ASSUME(inv_ok(req, cli));
    V_ASSUME(req->holds >= 0 && req->soft_holds >= 0);
}

/* contract of iauth_validate_request used by the reply handler: the live request whose
 * current instance the tag names, else NULL (the real function is proved in C04.validate) */
struct iauth_request *model_validate_request(const char *routing)
{
    (void)routing;
    return in_tag_valid ? req : NULL;
}
int model_routing(const struct iauth_request *r, char routing[], size_t routing_len)
{
    (void)r;
    if (routing_len < 6) return 1;
    routing[0] = 't'; routing[1] = '\0';
    return 0;
}
int model_xreply_ok(struct iauth_request *r, const char *service) { (void)r; (void)service; return nondet_int(); }

/* snapshots for frame ("nothing changed") checks */
static struct iauth_request req0;
static struct iauth_xquery_client cli0;
static struct iauth_xquery_service srv0[NSRV];
static char srv0_name[NSRV][3];
static void snapshot(void)
{
    unsigned i;
    req0 = *req; cli0 = *cli;
    for (i = 0; i < NSRV; i++) if (srv[i]) { srv0[i] = *srv[i]; srv0_name[i][0] = srv[i]->name[0]; srv0_name[i][1] = srv[i]->name[1]; }
}
/* "for all k < n: a[k] == b[k]" through a ghost index: k is arbitrary, so asserting the
 * result proves the equality of every byte (only used in asserted positions) */
unsigned int nondet_uint(void);
static int bytes_eq(const char *a, const char *b, unsigned n)
{
    unsigned k = nondet_uint();
    __CPROVER_assume(k < n);
    return a[k] == b[k];
}
#define ARR_EQ(a, b) bytes_eq((a), (b), sizeof(a))
static int req_same(void)
{
    return req->holds == req0.holds && req->soft_holds == req0.soft_holds && req->flags.bits[0] == req0.flags.bits[0]
        && req->state == req0.state && ARR_EQ(req->account, req0.account)
        && ARR_EQ(req->class, req0.class) && ARR_EQ(req->hostname, req0.hostname)
        && ARR_EQ(req->auth_username, req0.auth_username)
        && ARR_EQ(req->cli_username, req0.cli_username);
}
static int cli_same(void)
{
    return cli->ref_mask == cli0.ref_mask && cli->sent_mask == cli0.sent_mask && cli->more_mask == cli0.more_mask
        && cli->ok_mask == cli0.ok_mask && cli->modes.bits[0] == cli0.modes.bits[0]
        && ARR_EQ(cli->password, cli0.password);
}
static int srv_same(unsigned i)
{
    if (!srv[i]) return vec_store[i] == NULL;
    return vec_store[i] == srv[i] && srv[i]->refs == srv0[i].refs && srv[i]->type == srv0[i].type && srv[i]->configured == srv0[i].configured
        && srv[i]->queries == srv0[i].queries && srv[i]->good_acct == srv0[i].good_acct && srv[i]->good_no_acct == srv0[i].good_no_acct
        && srv[i]->bad == srv0[i].bad && srv[i]->bad_acct == srv0[i].bad_acct && srv[i]->unlinked == srv0[i].unlinked;
}
static int quiet(void)
{
    return G.msgs == 0 && G.msgs_other == 0 && G.broadcasts == 0 && G.queries == 0 && G.gate_evals == 0 && G.kills == 0 && G.accepts == 0;
}

static int is_login_type(int t) { return t == LOGIN || t == LOGIN_IPR || t == COMBINED; }

/* account text a service vouched: reply text up to the first blank, at most ACCOUNTLEN */
static int account_is(const char *acct, const char *text)
{
    unsigned i;
    for (i = 0; i < ACCOUNTLEN; i++) {
        if (text[i] == ' ' || text[i] == '\0') return acct[i] == '\0';
        if (acct[i] != text[i]) return 0;
    }
    return acct[ACCOUNTLEN] == '\0';
}

/* ======================================================= replies (C02-C05) */
void h_xq_x_reply(void)
{
    unsigned i, who = NSRV;
    const char *rp;
    int awaited, hidden_only, hidden_host, stype = 0;
    char account0;
    xq_pre();
    V_IN(in_service); V_IN(in_reply); V_IN(in_unlinked); V_IN(in_tag_valid);
    in_service.s[3] = '\0'; in_reply.s[REPLY_MAX - 1] = '\0';
    rp = in_unlinked ? NULL : in_reply.s;
    /* C04: "comes from a service that currently owes that instance an answer" */
    for (i = 0; i < NSRV; i++)
        if (who == NSRV && i < iauth_xquery_services.used && (cli->ref_mask & (1u << i)) && srv[i] && strcmp(in_service.s, srv[i]->name) == 0)
            who = i;
    awaited = in_tag_valid && who < NSRV;
    hidden_only = HIDDEN_ONLY(cli); hidden_host = HIDDEN_HOST(cli); account0 = req->account[0];
    if (who < NSRV) stype = srv[who]->type;
    snapshot();

    if (in_unlinked)
        iauth_xquery_x_unlinked(in_service.s, "tag", "msg");
    else
        iauth_xquery_x_reply(in_service.s, "tag", rp);

    if (!awaited) {
        /* C04: every other reply produces no output and no difference in any later behaviour */
        V_ASSERT(quiet(), "C04: a reply that is stale, malformed or not awaited produces no output");
        V_ASSERT(G.live && req_same() && cli_same() && srv_same(0) && srv_same(1) && srv_same(NSRV - 1),
                 "C04: a reply that is stale, malformed or not awaited changes nothing");
    } else {
        int ok = !in_unlinked && rp[0] == 'O' && rp[1] == 'K' && (rp[2] == '\0' || rp[2] == ' ');
        int no = !in_unlinked && !ok && strncmp(rp, "NO ", 3) == 0;
        int again = !in_unlinked && !ok && !no && strncmp(rp, "AGAIN ", 6) == 0;
        int more = !in_unlinked && !ok && !no && !again && strncmp(rp, "MORE ", 5) == 0;
        int final = in_unlinked || ok || again || more;
        V_ASSERT(G.verdicts <= 1 && G.msgs_after_retire == 0, "C01: at most one verdict, silence afterwards");
        V_ASSERT(G.msgs_other == 0, "C07: a reply addressed to one client emits nothing that names another client");
        if (no) {
            V_ASSERT(G.kills == 1 && !G.live && G.kill_reason == rp + 3, "C05: a refusal rejects the client with exactly the service's text");
            V_ASSERT(G.accepts == 0, "C02: a client refused by a service is never accepted");
        } else if (!final) {
            V_ASSERT(quiet() && G.live && req_same() && cli_same(), "C04/C08: a malformed reply changes nothing");
        } else {
            V_ASSERT(G.kills == 0, "C05: only NO rejects");
            if (again) V_ASSERT(G.challenges == 1 && G.challenge_text == rp + 6, "C05: retry text relayed verbatim to this client");
            if (more) V_ASSERT(G.challenges == 1 && G.challenge_text == rp + 5, "C05: challenge text relayed verbatim to this client");
            if (in_unlinked) V_ASSERT(G.challenges == (stype != DRONECHECK ? 1u : 0u), "C05: an unlinked login service is reported to the client");
            if (ok) V_ASSERT(G.challenges == 0, "C05: OK carries no challenge");
            if (G.live || G.accepts == 1) {
                /* account stamp: exactly when an awaited login-type service vouched one */
                if (ok && rp[2] == ' ' && is_login_type(stype)) {
                    if (G.live && account0 == '\0') V_ASSERT(account_is(req->account, rp + 3), "C05: the account stamp is the one the login service vouched");
                    if (G.live && account0 != '\0') V_ASSERT(ARR_EQ(req->account, req0.account), "C05: the first vouched account stamp is kept");
                    V_ASSERT(G.modes == ((hidden_only || hidden_host) ? 1u : 0u), "C05: +x is sent exactly when such a client asked for host hiding");
                } else {
                    if (G.live) V_ASSERT(ARR_EQ(req->account, req0.account), "C05: no account stamp from a drone-check service or a non-OK reply");
                    V_ASSERT(G.modes == 0, "C05: no +x without a vouched account");
                }
            }
            V_ASSERT(G.gate_evals == 1, "C03: a final answer re-evaluates the gate");
            if (G.live) {
                V_ASSERT((cli->ref_mask & (1u << who)) == 0 && (cli->ref_mask | (1u << who)) == cli0.ref_mask, "C02: the answering service, and only it, is no longer awaited");
                V_ASSERT(inv_ok(req, cli), "C02/C03: hold counters stay consistent with what is awaited / demanded (INV)");
                V_ASSERT(!spec_gate_open(req), "C03: a client that is ready and awaits nothing got its verdict in this step");
                V_ASSERT((cli->ok_mask & (1u << who)) == (ok ? (1u << who) : (cli0.ok_mask & (1u << who))), "C11: OK from a named service is remembered");
            } else {
                V_ASSERT(G.accepts == 1 && hidden_only ? (account0 != '\0' || (ok && rp[2] == ' ' && is_login_type(stype))) : 1,
                         "C02: never accepted while +! is demanded and no account stamp is held");
            }
        }
        /* C07: other services' records are untouched */
        for (i = 0; i < NSRV; i++)
            if (i != who) V_ASSERT(srv_same(i), "C07: a reply touches only the answering service's record");
    }
    V_CANARY();
}

/* ======================================================= query builder (C06, C02, C03) */
static int prereq_ok(int type)
{
    /* C06: password for login; also hostname result and ident for login-ipr; hostname result,
     * ident, nick and user info for dronecheck and combined (hurry-up makes all of these known) */
    unsigned need;
    unsigned F = req0.flags.bits[0];
    switch (type) {
    case LOGIN: need = 1u << IAUTH_GOT_PASSWORD; break;
    case LOGIN_IPR: need = (1u << IAUTH_GOT_PASSWORD) | (1u << IAUTH_GOT_HOSTNAME) | (1u << IAUTH_GOT_IDENT); break;
    default: need = (1u << IAUTH_GOT_HOSTNAME) | (1u << IAUTH_GOT_IDENT) | (1u << IAUTH_GOT_NICK) | (1u << IAUTH_GOT_USER_INFO); break;
    }
    return (need & ~F) == 0;
}

/* expected user name: ident, else the claimed name marked '~', at most USERLEN bytes */
static void spec_username(char out[12])
{
    unsigned i;
    for (i = 0; i < 12; i++) out[i] = 0;
    if (req0.auth_username[0] != '\0') {
        for (i = 0; i < USERLEN && req0.auth_username[i]; i++) out[i] = req0.auth_username[i];
    } else if (req0.cli_username[0] == '~') {
        for (i = 0; i < USERLEN && req0.cli_username[i]; i++) out[i] = req0.cli_username[i];
    } else if (req0.cli_username[0] != '\0') {
        out[0] = '~';
        for (i = 0; i + 1 < USERLEN && req0.cli_username[i]; i++) out[i + 1] = req0.cli_username[i];
    }
}

void h_xq_check(void)
{
    unsigned i, k, expect_total = 0, first_due = NSRV;
    int due[NSRV];
    char want_user[12];
    const char *hostname;
    xq_pre();
    V_IN(in_flag);
    V_ASSUME(in_flag >= 0 && in_flag < IAUTH_NUM_FLAGS);
    snapshot();
    for (i = 0; i < NSRV; i++) {
        struct iauth_xquery_service *s = (i < iauth_xquery_services.used) ? srv[i] : NULL;
        due[i] = s && s->configured
            && !((cli->sent_mask & (1u << i)) && (in_flag != IAUTH_GOT_PASSWORD || s->type == DRONECHECK))
            && !((s->type == LOGIN || s->type == LOGIN_IPR) && !cli->password[0])
            && prereq_ok(s->type);
        if (due[i]) {
            if (first_due == NSRV) first_due = i;
            expect_total += ((s->type == DRONECHECK || s->type == COMBINED) ? 1 : 0)
                          + ((cli->password[0] && s->type != DRONECHECK) ? 1 : 0);
        }
    }
    spec_username(want_user);
    hostname = req->hostname[0] ? req->hostname : req->text_addr;

    if (in_flag == IAUTH_GOT_USER_INFO)
        iauth_xquery_user_info(req);
    else
        iauth_xquery_check(req, (enum iauth_flags)in_flag);

    V_ASSERT(G.msgs_other == 0, "C07: the query builder emits nothing that names another client");
    V_ASSERT(G.live && G.msgs == 0 && G.verdicts == 0 && G.gate_evals == 0 && G.kills == 0,
             "C01/C03: a data hook of a decision module sends queries only - it never decides or retires the client");
    V_ASSERT(G.queries == expect_total, "C06: each configured service is queried exactly when its protocol's data is known - not earlier, not skipped, not twice");
    for (k = 0; k < 8; k++) {
        if (k < G.queries) {
            unsigned who = NSRV;
            for (i = 0; i < NSRV; i++) if (srv[i] && G.query_server[k] == srv[i]->name) who = i;
            V_ASSERT(who < NSRV && due[who], "C06: a query goes only to a service that is due");
            if (who < NSRV) {
                int t = srv[who]->type;
                if (G.query_verb[k] == 'C') {
                    V_ASSERT(t == DRONECHECK || t == COMBINED, "C06: CHECK goes to drone-check type services");
                    V_ASSERT(G.query_arg[k][0] == req->nickname && G.query_arg[k][2] == req->text_addr && G.query_arg[k][3] == hostname && G.query_arg[k][4] == req->realname,
                             "C06: CHECK carries this client's nick, address, host name (or address) and real name");
                    V_ASSERT(bytes_eq(G.query_user[k], want_user, 12), "C06: the user name is the ident, else the claimed name marked ~, within USERLEN");
                } else if (G.query_verb[k] == 'L') {
                    V_ASSERT(t == LOGIN || t == COMBINED, "C06: LOGIN goes to login / combined services");
                    V_ASSERT(G.query_arg[k][0] == cli->password && cli->password[0] != '\0', "C06: LOGIN carries this client's credentials");
                } else {
                    V_ASSERT(G.query_verb[k] == '2' && t == LOGIN_IPR, "C06: LOGIN2 goes to login-ipr services");
                    V_ASSERT(G.query_arg[k][0] == req->text_addr && G.query_arg[k][1] == hostname && G.query_arg[k][3] == cli->password,
                             "C06: LOGIN2 carries this client's address, host name and credentials");
                    V_ASSERT(bytes_eq(G.query_user[k], want_user, 12), "C06: the user name is the ident, else the claimed name marked ~, within USERLEN");
                }
            }
        }
    }
    for (i = 0; i < NSRV; i++) {
        unsigned bit = 1u << i;
        if (due[i]) {
            V_ASSERT((cli->ref_mask & bit) && (cli->sent_mask & bit), "C02: a queried service is awaited");
            V_ASSERT(srv[i]->refs == srv0[i].refs + 1 && srv[i]->queries == srv0[i].queries + 1, "C10: per-service counters advance by one");
        } else {
            V_ASSERT((cli->ref_mask & bit) == (cli0.ref_mask & bit) && (cli->sent_mask & bit) == (cli0.sent_mask & bit) && srv_same(i),
                     "C06/C07: a service that is not due is not touched");
        }
    }
    V_ASSERT(inv_ok(req, cli), "C02/C03: hold counters stay consistent with what is awaited (INV)");
    V_ASSERT(req->holds == req0.holds && req->flags.bits[0] == req0.flags.bits[0], "C02: the query builder neither takes nor releases hard holds");
    V_CANARY();
}

/* ======================================================= C17: reload reaches the service table
 * real iauth_xquery_services_changed + iauth_xquery_config_service + iauth_xquery_unref from an
 * arbitrary previous table (holes, stale entries) and a section with up to two string children:
 * afterwards the configured services are exactly the section's valid entries, whatever was
 * there before (== what a fresh start builds). */
struct { unsigned n; unsigned char type[2]; } in_section;          /* children "sA","sB"; type 0..3 or 4 = unknown word */
struct { unsigned used; unsigned char who[2]; unsigned char cfg[2]; unsigned refs[2]; unsigned char otype[2]; } in_oldtbl;   /* who: 0 hole, 1 "sA", 2 "sB", 3 "sC" */
static const char *tnames(unsigned k) { switch (k) { case 0: return "login"; case 1: return "login-ipr"; case 2: return "dronecheck"; case 3: return "combined"; default: return "bogus"; } }
static const char *snames(unsigned k) { switch (k) { case 1: return "sA"; case 2: return "sB"; case 3: return "sC"; default: return ""; } }

/* section children are file-scope objects: their fields (name, value) stay concrete for the
 * symbolic executor - a heap node's name would make strlen(name) and hence the size of the
 * service allocation symbolic, which the bit-blaster cannot handle */
static struct { struct set_node n; struct conf_node_string v; } child_obj[2];
static struct conf_node_string *mk_child(unsigned k, const char *name, const char *value)
{
    struct conf_node_string *c = &child_obj[k].v;
    memset(&child_obj[k], 0, sizeof(child_obj[k]));
    c->base.name = (char *)name; c->base.type = CONF_STRING; c->value = (char *)value;
    return c;
}

static void services_case(void)
{
    static struct conf_node_object root;
    struct conf_node_string *c0 = NULL, *c1 = NULL;
    struct iauth_xquery_service *old[2] = { NULL, NULL };
    unsigned i, k;
    memset(&root, 0, sizeof(root));
    root.base.name = "iauth_xquery"; root.base.type = CONF_OBJECT;
    if (in_section.n >= 1) { c0 = mk_child(0, "sA", tnames(in_section.type[0])); root.contents.root = set_node(c0); root.contents.count = 1; }
    if (in_section.n >= 2) { c1 = mk_child(1, "sB", tnames(in_section.type[1])); set_node(c0)->next = set_node(c1); set_node(c1)->prev = set_node(c0); root.contents.count = 2; }
    xq_conf.root = &root;
    for (i = 0; i < 2; i++)
        if (i < in_oldtbl.used && in_oldtbl.who[i] != 0)
            old[i] = mk_srv(in_oldtbl.refs[i], in_oldtbl.otype[i], in_oldtbl.cfg[i] != 0, snames(in_oldtbl.who[i]));
    iauth_xquery_services.vec = malloc(4 * sizeof(void *)); V_ASSUME(iauth_xquery_services.vec != NULL);
    iauth_xquery_services.size = 4; iauth_xquery_services.used = in_oldtbl.used;
    for (i = 0; i < 2; i++) iauth_xquery_services.vec[i] = old[i];

    iauth_xquery_services_changed(&root.base);                      /* REAL */

    for (k = 0; k < 2; k++) {
        const char *nm = k == 0 ? "sA" : "sB";
        int listed = k < in_section.n;
        unsigned ty = in_section.type[k];
        unsigned found = 0, conf_n = 0; int tyok = 1;
        for (i = 0; i < 4; i++) {
            if (i < iauth_xquery_services.used && iauth_xquery_services.vec[i] && strcmp(iauth_xquery_services.vec[i]->name, nm) == 0) {
                found++;
                if (iauth_xquery_services.vec[i]->configured) { conf_n++; if (listed && ty < 4 && (unsigned)iauth_xquery_services.vec[i]->type != ty) tyok = 0; }
            }
        }
        V_ASSERT(found <= 1, "C17: one table entry per service name");
        if (listed && ty < 4) {
            V_ASSERT(conf_n == 1, "C17: after a reload every service named in the new section is configured - also when it reuses a freed slot");
            V_ASSERT(tyok, "C17: ... with the protocol the new file gives");
        } else
            V_ASSERT(conf_n == 0, "C17: a service the new section does not (validly) name is no longer queried");
    }
    for (i = 0; i < 4; i++)
        if (i < iauth_xquery_services.used && iauth_xquery_services.vec[i] && strcmp(iauth_xquery_services.vec[i]->name, "sC") == 0)
            V_ASSERT(!iauth_xquery_services.vec[i]->configured && iauth_xquery_services.vec[i]->refs > 0, "C17: a removed service stays only while clients still await it, unconfigured");
    /* release this case's objects */
    for (i = 0; i < 4; i++) if (i < iauth_xquery_services.used && iauth_xquery_services.vec[i]) free(iauth_xquery_services.vec[i]);
    free(iauth_xquery_services.vec);
}

/* exhaustive over: section of 0-2 services (each one of the four protocols or an unknown word) x
 * previous table of 0-2 slots (hole, or sA/sB/sC, configured or only still referenced): every
 * case is executed concretely by the verifier */
void h_xq_services_changed(void)
{
    unsigned n, t0, t1, u, w0, w1, s0, s1;
#define ST_CFG(k) ((k) == 2 ? 0 : 1)
#define ST_REFS(k) ((k) == 0 ? 0 : 1)
#ifdef SVC_QUICK
    {   /* quick tier: hand-picked (section, previous table) pairs - fresh start, additions, removal,
         * in-place protocol change, reuse of a freed slot, still-awaited leftovers, unknown protocol word */
#define SVC_CASE(N, T0, T1, U, W0, C0, R0, W1, C1, R1, O0) do { \
            in_section.n = N; in_section.type[0] = T0; in_section.type[1] = T1; \
            in_oldtbl.used = U; in_oldtbl.who[0] = W0; in_oldtbl.cfg[0] = C0; in_oldtbl.refs[0] = R0; \
            in_oldtbl.who[1] = W1; in_oldtbl.cfg[1] = C1; in_oldtbl.refs[1] = R1; in_oldtbl.otype[0] = O0; in_oldtbl.otype[1] = 2; \
            services_case(); } while (0)
        /* literals, not a table: the symbolic executor does not fold reads from static arrays */
#if SVC_QUICK == 0
        SVC_CASE(1,0,0, 0,0,0,0,0,0,0, 0);      /* fresh start, one login service */
#ifndef SVC_ONE
        SVC_CASE(2,0,2, 0,0,0,0,0,0,0, 0);      /* fresh start, login + dronecheck */
        SVC_CASE(2,0,2, 2,0,0,0,2,1,0, 0);      /* sA must reuse the freed slot 0 next to a configured sB */
        SVC_CASE(0,0,0, 1,1,1,0,0,0,0, 0);      /* the only service is removed */
#endif
#else
        SVC_CASE(1,4,0, 1,3,0,1,0,0,0, 0);      /* unknown protocol word; an awaited leftover sC */
        SVC_CASE(1,2,0, 1,1,1,0,0,0,0, 0);      /* protocol changed in place: login -> dronecheck */
        SVC_CASE(1,0,0, 1,2,0,1,0,0,0, 2);      /* sB still awaited but unconfigured; the new section names sA only */
        SVC_CASE(2,3,1, 2,0,0,0,0,0,0, 0);      /* two holes, two new services */
#endif
    }
    V_CANARY();
    return;
#endif
    /* split over jobs by the section: -DSEC_N=n -DSEC_T0=t0 -DSEC_T1=t1 (one section per job) */
#ifdef SEC_N
    for (n = SEC_N; n <= SEC_N; n++) for (t0 = SEC_T0; t0 <= SEC_T0; t0++) for (t1 = SEC_T1; t1 <= SEC_T1; t1++)
#else
    for (n = 0; n <= 2; n++) for (t0 = 0; t0 < (n >= 1 ? 5u : 1u); t0++) for (t1 = 0; t1 < (n >= 2 ? 5u : 1u); t1++)
#endif
    for (u = 0; u <= 2; u++) for (w0 = 0; w0 < (u >= 1 ? 4u : 1u); w0++) for (s0 = 0; s0 < (w0 ? 3u : 1u); s0++)
    for (w1 = 0; w1 < (u >= 2 ? 4u : 1u); w1++) for (s1 = 0; s1 < (w1 ? 3u : 1u); s1++) {
        if (w0 && w0 == w1) continue;
#ifdef TBL_SLICE
        /* quick slice of the previous tables: a slot is a hole, sA configured & idle, sB configured & awaited, or sC removed & awaited */
        if ((w0 == 1 && s0 != 0) || (w0 == 2 && s0 != 1) || (w0 == 3 && s0 != 2)) continue;
        if ((w1 == 1 && s1 != 0) || (w1 == 2 && s1 != 1) || (w1 == 3 && s1 != 2)) continue;
#endif
        in_section.n = n; in_section.type[0] = (unsigned char)t0; in_section.type[1] = (unsigned char)t1;
        in_oldtbl.used = u; in_oldtbl.who[0] = (unsigned char)w0; in_oldtbl.who[1] = (unsigned char)w1;
        in_oldtbl.cfg[0] = ST_CFG(s0); in_oldtbl.refs[0] = ST_REFS(s0); in_oldtbl.cfg[1] = ST_CFG(s1); in_oldtbl.refs[1] = ST_REFS(s1);
        in_oldtbl.otype[0] = 0; in_oldtbl.otype[1] = 2;
        services_case();
    }
    V_CANARY();
}

/* ======================================================= password shape (C06, C02)
 * real iauth_xquery_password -> iauth_xquery_check_password; the query builder by contract
 * (counted; it is proved on its own in C06.xq_check). */
#ifndef PW_LEN
#define PW_LEN 10
#endif
struct { char s[PW_LEN + 1]; } in_pwtext;
static unsigned check_calls; static int check_flag;
void model_xquery_check(struct iauth_request *r, enum iauth_flags flag)
{
    V_ASSERT(r == G.req && G.live, "C01: the query builder is run for a live request only");
    check_calls++; check_flag = (int)flag;
}

/* C06: the '<modes> <account> <password>' shape (lenient reading: a run starting with + or -,
 * blank(s), an account, a blank, the rest) */
static int spec_pw_shape(const char *p, unsigned *rest_at, int *set_x, int *clr_x, int *set_b, int *clr_b)
{
    unsigned i = 0; int set = 0;
    *set_x = *clr_x = *set_b = *clr_b = 0;
    if (p[0] != '+' && p[0] != '-') return 0;
    for (; i < PW_LEN + 1; i++) {
        char c = p[i];
        if (c == ' ') break;
        if (c == '\0') return 0;
        if (c == '+') set = 1;
        else if (c == '-') set = 0;
        else if (c == 'x') { *set_x = set; *clr_x = !set; }
        else if (c == '!') { *set_b = set; *clr_b = !set; }
    }
    for (; i < PW_LEN + 1 && p[i] == ' '; i++) ;
    *rest_at = i;
    for (; i < PW_LEN + 1 && p[i] != '\0'; i++) if (p[i] == ' ') return 1;
    return 0;
}

void h_xq_password(void)
{
    unsigned rest = 0, i; int sx, cx, sb, cb, shaped, first;
    xq_pre();
    V_IN(in_pwtext);
    in_pwtext.s[PW_LEN] = '\0';
    snapshot();
    first = (cli->more_mask == 0) || (cli->password[0] == '\0');
    shaped = spec_pw_shape(in_pwtext.s, &rest, &sx, &cx, &sb, &cb);
    iauth_xquery_password(req, in_pwtext.s);                        /* REAL */
    V_ASSERT(G.live && G.verdicts == 0 && G.msgs == 0 && G.gate_evals == 0, "C01/C03: a password hook never decides or retires the client itself");
    if (first) {
        if (!shaped) {
            V_ASSERT(check_calls == 0 && G.queries == 0, "C06: a password lacking the '<modes> <account> <password>' shape is never forwarded to any service");
            V_ASSERT(req_same() && cli_same(), "C06: ... and changes nothing");
        } else {
            int hidden0 = (cli0.modes.bits[0] >> IAUTH_XQUERY_HIDDEN_ONLY) & 1, host0 = (cli0.modes.bits[0] >> IAUTH_XQUERY_HIDDEN_HOST) & 1;
            int hidden1 = sb ? 1 : cb ? 0 : hidden0, host1 = sx ? 1 : cx ? 0 : host0;
            V_ASSERT(HIDDEN_ONLY(cli) == hidden1 && HIDDEN_HOST(cli) == host1, "C05/C02: the requested modes are the net effect of the mode run");
            V_ASSERT(check_calls == 1 && check_flag == IAUTH_GOT_PASSWORD, "C06: a well-formed password is handed to the query builder at once");
            for (i = 0; i < PW_LEN + 1; i++) {
                if (rest + i <= PW_LEN) {
                    V_ASSERT(cli->password[i] == in_pwtext.s[rest + i], "C06: the credentials are kept exactly as the server reported them");
                    if (in_pwtext.s[rest + i] == '\0') break;
                }
            }
            V_ASSERT(req->holds == ((HIDDEN_ONLY(cli) && req->account[0] == '\0') ? 1 : 0), "C02: +! takes a hard hold until an account is stamped, -! releases it (INV)");
            V_ASSERT(req->soft_holds == req0.soft_holds, "C02: a password takes no soft hold by itself (the query builder does)");
        }
    }
    V_CANARY();
}
