/* harness/h_iauth_class.c - C11: class rules (modules/iauth_class.c) */
#include "vh.h"
#include "units/u_iauth.c"
#include "spec/iauth_model.h"
#include "spec/set_model.h"
#include "harness/iauth_common.h"
#include "spec/ghost.h"

#ifndef CN_MAX
#define CN_MAX 70
#endif

/* ------------------------------------------------------------------ symbolic inputs */
struct { int have_class, have_account, have_username, have_hostname, have_xreply; unsigned bits; int trust; unsigned assigned; irc_inaddr addr; } in_rule;
struct { int r[3]; } in_fn;          /* results of the three glob matches, in call order */
int in_xok;                          /* result of iauth_xreply_ok */
struct { char s[CN_MAX]; } in_cname;     /* rule->class or rule->name text */

static struct iauth_class_rule rule;
static unsigned fn_calls;
static char fn_str[3][ACCOUNTLEN + 2];
static const char *fn_pat[3];

/* glob matching is libc's (uninterpreted): the harness fixes its three answers and records
 * what it was asked */
int fnmatch(const char *pattern, const char *string, int flags)
{
    unsigned k = fn_calls++, i;
    (void)flags;
    if (k < 3) {
        fn_pat[k] = pattern;
        for (i = 0; i < ACCOUNTLEN + 1 && string[i]; i++) fn_str[k][i] = string[i];
        fn_str[k][i] = '\0';
        return in_fn.r[k];
    }
    return 1;
}
int model_xreply_ok(struct iauth_request *r, const char *service) { (void)r; (void)service; return in_xok; }
struct iauth_request *model_validate_request(const char *routing) { (void)routing; return NULL; }
int model_routing(const struct iauth_request *r, char routing[], size_t n) { (void)r; (void)routing; (void)n; return 1; }

static char pat_a[] = "a*", pat_u[] = "u*", pat_h[] = "h*", svc[] = "svc", rname[] = "rulename";

void h_rule_check(void)
{
    int res, k = 0, want;
    int acct_ok, addr_ok, user_ok, host_ok, x_ok;
    unsigned i, colon;
    const char *cls;
    char class0[CLASSLEN + 1];
    req = mk_request();
    V_IN(in_rule); V_IN(in_fn); V_IN(in_xok); V_IN(in_cname);
#ifdef CRIT
    /* one job per subset of the glob / service criteria (address prefix, class-vs-name and trust stay symbolic) */
    in_rule.have_account = ((CRIT) >> 0) & 1; in_rule.have_username = ((CRIT) >> 1) & 1;
    in_rule.have_hostname = ((CRIT) >> 2) & 1; in_rule.have_xreply = ((CRIT) >> 3) & 1;
#endif
    in_cname.s[CN_MAX - 1] = '\0';
    /* INV: an ident was recorded together with its flag (parse_ident) */
    V_ASSUME(req->auth_username[0] == '\0' || BITSET_GET(req->flags, IAUTH_GOT_IDENT));
    memset(&rule, 0, sizeof(rule));
    rule.name = in_rule.have_class ? rname : in_cname.s;
    rule.class = in_rule.have_class ? in_cname.s : NULL;
    rule.account = in_rule.have_account ? pat_a : NULL;
    rule.username = in_rule.have_username ? pat_u : NULL;
    rule.hostname = in_rule.have_hostname ? pat_h : NULL;
    rule.xreply_ok = in_rule.have_xreply ? svc : NULL;
    rule.address = in_rule.addr; rule.address_bits = in_rule.bits;
    rule.trust_username = in_rule.trust; rule.assigned = in_rule.assigned;
    V_ASSUME(rule.assigned < 1000000);
    for (i = 0; i < CLASSLEN + 1; i++) class0[i] = req->class[i];

    res = iauth_class_rule_check(&rule, 0, req);

    /* all criteria present must hold (conjunction), in the documented meaning */
    acct_ok = !rule.account || in_fn.r[k++] == 0;
    addr_ok = !rule.address_bits || spec_prefix_equal(&req->remote_addr, &rule.address, rule.address_bits);
    user_ok = !(acct_ok && addr_ok) || !rule.username || in_fn.r[k++] == 0;
    host_ok = !(acct_ok && addr_ok && user_ok) || !rule.hostname || in_fn.r[k++] == 0;
    x_ok = !rule.xreply_ok || in_xok > 0;
    want = acct_ok && addr_ok && user_ok && host_ok && x_ok;
    V_ASSERT((res == 1) == (want != 0) && (res == 0 || res == 1), "C11: a rule applies exactly when all of its criteria are satisfied");
    if (rule.account) {
        /* account glob ignoring the stamp suffix */
        V_ASSERT(fn_pat[0] == rule.account, "C11: the account criterion is matched with the rule's pattern");
        colon = ACCOUNTLEN + 1;
        for (i = 0; i < ACCOUNTLEN + 1; i++) if (colon == ACCOUNTLEN + 1 && (req->account[i] == ':' || req->account[i] == '\0')) colon = i;
        for (i = 0; i < ACCOUNTLEN + 1; i++)
            if (i < colon) V_ASSERT(fn_str[0][i] == req->account[i], "C11: the account glob sees the account name");
        V_ASSERT(fn_str[0][colon <= ACCOUNTLEN ? colon : ACCOUNTLEN] == '\0', "C11: the account glob ignores the stamp suffix after ':'");
    }
    if (res) {
        cls = rule.class ? rule.class : rule.name;
        for (i = 0; i < CLASSLEN + 1; i++) {
            if (i < CLASSLEN && cls[i] != '\0') V_ASSERT(req->class[i] == cls[i], "C11: the client is given the rule's class value, or else its name (up to CLASSLEN bytes)");
            else { V_ASSERT(req->class[i] == '\0', "C11: the class text ends where the rule's text ends"); break; }
        }
        V_ASSERT(rule.assigned == in_rule.assigned + 1, "C11: the rule's hit counter advances");
        if (rule.trust_username && req->auth_username[0] == '~') {
            V_ASSERT(G.usernames == 1 && G.username_kind == 'U' && G.username_text == req->cli_username + (req->cli_username[0] == '~'),
                     "C11: trust_username upgrades an untrusted (~) ident to the client-supplied user name");
        } else
            V_ASSERT(G.usernames == 0, "C11: no user name upgrade without trust_username and a ~ ident");
        V_ASSERT(G.gate_evals == 0, "C01: assigning a class just before acceptance cannot re-enter the gate (ident flag already set)");
    } else {
        for (i = 0; i < CLASSLEN + 1; i++) V_ASSERT(req->class[i] == class0[i], "C11: a rule that does not apply leaves the class alone");
        V_ASSERT(G.msgs == 0 && rule.assigned == in_rule.assigned, "C11: a rule that does not apply sends nothing");
    }
    V_CANARY();
}

/* ---- first matching rule in order decides; pre-assigned classes are skipped ---- */
struct { unsigned used; unsigned char match[4]; } in_rules;
static struct iauth_class_rule rules4[4];
static unsigned checked[4], n_checked;
static char cname[4][3] = { "c0", "c1", "c2", "c3" };

/* contract of iauth_class_rule_check for the scan: applies (returns 1, sets the class) or not */
int model_rule_check(struct iauth_class_rule *r, unsigned idx, struct iauth_request *rq)
{
    V_ASSERT(idx < 4 && r == &rules4[idx], "C11: rules are visited in vector order");
    if (n_checked < 4) checked[n_checked] = idx;
    n_checked++;
    if (in_rules.match[idx]) { rq->class[0] = cname[idx][0]; rq->class[1] = cname[idx][1]; rq->class[2] = '\0'; return 1; }
    return 0;
}

void h_class_assign(void)
{
    unsigned i, first = 4;
    int pre;
    req = mk_request();
    V_IN(in_rules);
    V_ASSUME(in_rules.used <= 4);
    cl_conf.rules.vec = rules4; cl_conf.rules.used = in_rules.used; cl_conf.rules.size = 4;
    pre = req->class[0] != '\0';
    for (i = 0; i < 4; i++) if (first == 4 && i < in_rules.used && in_rules.match[i]) first = i;
    iauth_class_assign(req);
    if (pre) {
        V_ASSERT(n_checked == 0, "C11: a client that already has a class is not re-classified");
    } else if (first < 4) {
        V_ASSERT(req->class[0] == 'c' && req->class[1] == (char)('0' + first), "C11: the first matching rule in order decides");
        V_ASSERT(n_checked == first + 1, "C11: the scan stops at the first hit");
    } else {
        V_ASSERT(req->class[0] == '\0' && n_checked == in_rules.used, "C11: no class when no rule matches");
    }
    for (i = 0; i < 4; i++) if (i < n_checked) V_ASSERT(checked[i] == i, "C11: rules are tried in their compiled order");
    V_CANARY();
}

/* ======================================================= C17: a reload reaches the rule table
 * real iauth_class_conf_changed + iauth_class_free_rules from an arbitrary previous rule vector
 * and a section of up to two rule objects (plus a non-object child, which is not a rule), each
 * with an arbitrary subset of the seven criteria: afterwards the compiled vector is exactly the
 * section's objects in order with exactly their criteria (== what a fresh start compiles) -
 * only the hit counters are carried over, by name.  conf_get_child and conf_parse_boolean are
 * used through their contracts (config.c is not part of this unit). */
#ifndef NRULE
#define NRULE 2
#endif
#ifndef STRAY
#define STRAY 0
#endif
#ifndef OLDCASE
#define OLDCASE 0
#endif
struct { unsigned char mask[2]; unsigned assigned[3]; int boolres[2]; } in_sec;
enum { K_CLASS, K_ACCOUNT, K_ADDRESS, K_USERNAME, K_HOSTNAME, K_XREPLY, K_TRUST, K_N };
static struct { struct set_node n; struct conf_node_object o; } rule_obj[2];
static struct { struct set_node n; struct conf_node_string s; } stray_obj;
static struct conf_node_string kid[2][K_N];
static const char *bool_arg[2];
static unsigned bool_calls;

static unsigned kid_index(const char *name)
{
    if (!strcmp(name, "class")) return K_CLASS;
    if (!strcmp(name, "account")) return K_ACCOUNT;
    if (!strcmp(name, "address")) return K_ADDRESS;
    if (!strcmp(name, "username")) return K_USERNAME;
    if (!strcmp(name, "hostname")) return K_HOSTNAME;
    if (!strcmp(name, "xreply_ok")) return K_XREPLY;
    if (!strcmp(name, "trust_username")) return K_TRUST;
    return K_N;
}
static const char *kid_value(unsigned r, unsigned k)
{
    switch (k) {
    case K_CLASS: return r ? "c1" : "c0";
    case K_ACCOUNT: return r ? "b*" : "a*";
    case K_ADDRESS: return r ? "::1" : "10.0.0.0/8";
    case K_USERNAME: return "u*";
    case K_HOSTNAME: return r ? "*.h1" : "*.h0";
    case K_XREPLY: return r ? "sY" : "sX";
    default: return "yes";
    }
}
/* contract of conf_get_child: the child of that name if the object has one of that type */
void *conf_get_child(struct conf_node_object *parent, const char *name, enum conf_node_type type)
{
    unsigned r = parent == &rule_obj[1].o, k = kid_index(name);
    V_ASSERT(parent == &rule_obj[0].o || parent == &rule_obj[1].o, "conf_get_child contract: the parent is a rule object of the section");
    if (k >= K_N || type != CONF_STRING) return NULL;
    return ((in_sec.mask[r] >> k) & 1) ? (void *)&kid[r][k] : NULL;
}
/* contract of conf_parse_boolean: some truth value of the text (decided in the C15/C16 jobs) */
int conf_parse_boolean(const char *value, int *success)
{
    unsigned k = bool_calls++;
    if (k < 2) bool_arg[k] = value;
    if (success) *success = 1;
    return in_sec.boolres[k < 2 ? k : 0] != 0;
}

static char *dup_lit(const char *s) { size_t n = strlen(s) + 1; char *p = malloc(n); V_ASSUME(p != NULL); memcpy(p, s, n); return p; }
static void mk_old(struct iauth_class_rule *r, const char *name, unsigned assigned)
{
    memset(r, 0, sizeof(*r));
    r->name = dup_lit(name); r->class = dup_lit("oldclass"); r->account = dup_lit("x*"); r->xreply_ok = dup_lit("sOld");
    r->assigned = assigned; r->trust_username = 1; r->address_bits = 128;
}
static const char *rule_name(unsigned r) { return r ? "rb" : "ra"; }

void h_class_conf_changed(void)
{
    static struct conf_node_object root;
    struct set_node *chain[3];
    unsigned n = 0, i, k, r, old_n = 0, bk = 0;
    static const char *old_names[3];
    V_IN(in_sec);
    V_ASSUME(in_sec.mask[0] < (1u << K_N) && in_sec.mask[1] < (1u << K_N));
    memset(&root, 0, sizeof(root)); memset(rule_obj, 0, sizeof(rule_obj)); memset(&stray_obj, 0, sizeof(stray_obj)); memset(kid, 0, sizeof(kid));
    root.base.name = "iauth_class"; root.base.type = CONF_OBJECT;
    for (r = 0; r < 2; r++) {
        rule_obj[r].o.base.name = (char *)rule_name(r); rule_obj[r].o.base.type = CONF_OBJECT; rule_obj[r].o.base.parent = &root;
        for (k = 0; k < K_N; k++) { kid[r][k].base.type = CONF_STRING; kid[r][k].value = (char *)kid_value(r, k); }
    }
    stray_obj.s.base.name = "rab"; stray_obj.s.base.type = CONF_STRING; stray_obj.s.value = "not a rule";
    /* section children in name order: ra < rab < rb */
    if (NRULE >= 1) chain[n++] = &rule_obj[0].n;
    if (STRAY) chain[n++] = &stray_obj.n;
    if (NRULE >= 2) chain[n++] = &rule_obj[1].n;
    for (i = 0; i < n; i++) { chain[i]->prev = i ? chain[i - 1] : NULL; chain[i]->next = i + 1 < n ? chain[i + 1] : NULL; }
    root.contents.root = n ? chain[0] : NULL; root.contents.count = n;
    cl_conf.root = &root;

    /* the previous rule vector (what an earlier file compiled to) */
#if OLDCASE == 0
    cl_conf.rules.vec = NULL; cl_conf.rules.used = cl_conf.rules.size = 0;
#else
    cl_conf.rules.vec = malloc(3 * sizeof(struct iauth_class_rule)); V_ASSUME(cl_conf.rules.vec != NULL); cl_conf.rules.size = 3;
#if OLDCASE == 1
    old_names[0] = "ra"; old_n = 1;
#elif OLDCASE == 2
    old_names[0] = "RA"; old_names[1] = "rb"; old_n = 2;
#elif OLDCASE == 3
    old_names[0] = "rb"; old_n = 1;
#else
    old_names[0] = "qq"; old_names[1] = "rb"; old_names[2] = "zz"; old_n = 3;
#endif
    for (i = 0; i < old_n; i++) mk_old(&cl_conf.rules.vec[i], old_names[i], in_sec.assigned[i]);
    cl_conf.rules.used = old_n;
#endif

    iauth_class_conf_changed(&root.base);                           /* REAL */

    V_ASSERT(cl_conf.rules.used == NRULE, "C17: after a reload the compiled rules are exactly the section's rule objects - none skipped, no leftover, non-objects ignored");
    for (r = 0; r < NRULE; r++) {
        struct iauth_class_rule *ru = &cl_conf.rules.vec[r];
        unsigned m = in_sec.mask[r], want_assigned = 0;
        irc_inaddr wa; unsigned int wbits = 0;
        memset(&wa, 0, sizeof(wa));
        V_ASSERT(ru->name && !strcmp(ru->name, rule_name(r)), "C17: rules are compiled in section order under their names");
        V_ASSERT(((m >> K_CLASS) & 1) ? (ru->class && !strcmp(ru->class, kid_value(r, K_CLASS))) : ru->class == NULL, "C17: a rule's class is the new file's");
        V_ASSERT(((m >> K_ACCOUNT) & 1) ? (ru->account && !strcmp(ru->account, kid_value(r, K_ACCOUNT))) : ru->account == NULL, "C17: a rule's account criterion is the new file's");
        V_ASSERT(((m >> K_USERNAME) & 1) ? (ru->username && !strcmp(ru->username, kid_value(r, K_USERNAME))) : ru->username == NULL, "C17: a rule's username criterion is the new file's");
        V_ASSERT(((m >> K_HOSTNAME) & 1) ? (ru->hostname && !strcmp(ru->hostname, kid_value(r, K_HOSTNAME))) : ru->hostname == NULL, "C17: a rule's hostname criterion is the new file's");
        V_ASSERT(((m >> K_XREPLY) & 1) ? (ru->xreply_ok && !strcmp(ru->xreply_ok, kid_value(r, K_XREPLY))) : ru->xreply_ok == NULL, "C17: a rule's xreply_ok criterion is the new file's");
        if ((m >> K_ADDRESS) & 1) irc_pton(&wa, &wbits, kid_value(r, K_ADDRESS), 0);
        V_ASSERT(ru->address_bits == wbits && !memcmp(&ru->address, &wa, sizeof(wa)), "C17: a rule's address criterion is the new file's (none when the file gives none)");
        if ((m >> K_TRUST) & 1) {
            V_ASSERT(bk < 2 && bool_arg[bk] == kid[r][K_TRUST].value && ru->trust_username == (in_sec.boolres[bk] != 0), "C17: trust_username is the truth value of the new file's text");
            bk++;
        } else
            V_ASSERT(ru->trust_username == 0, "C17: trust_username is off when the new file does not give it");
        for (i = 0; i < old_n; i++) if (!strcasecmp(old_names[i], rule_name(r))) want_assigned = in_sec.assigned[i];
        V_ASSERT(ru->assigned == want_assigned, "C17: only the hit counter is carried over, from the old rule of the same name");
    }
    V_ASSERT(bool_calls == bk, "C17: nothing else is parsed as a truth value");
    V_CANARY();
}
