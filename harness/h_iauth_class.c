/* harness/h_iauth_class.c - C11: class rules (modules/iauth_class.c) */
#include "vh.h"
#include "units/u_iauth.c"
#include "spec/iauth_model.h"
#include "spec/set_model.h"
#include "harness/iauth_common.h"
#include "spec/ghost.h"

#ifndef CN_MAX
#define CN_MAX 70
#endif

/* ------------------------------------------------------------------ symbolic inputs */
struct { int have_class, have_account, have_username, have_hostname, have_xreply; unsigned bits; int trust; unsigned assigned; irc_inaddr addr; } in_rule;
struct { int r[3]; } in_fn;          /* results of the three glob matches, in call order */
int in_xok;                          /* result of iauth_xreply_ok */
struct { char s[CN_MAX]; } in_cname;     /* rule->class or rule->name text */

static struct iauth_class_rule rule;
static unsigned fn_calls;
static char fn_str[3][ACCOUNTLEN + 2];
static const char *fn_pat[3];

/* glob matching is libc's (uninterpreted): the harness fixes its three answers and records
 * what it was asked */
int fnmatch(const char *pattern, const char *string, int flags)
{
    unsigned k = fn_calls++, i;
    (void)flags;
    if (k < 3) {
        fn_pat[k] = pattern;
        for (i = 0; i < ACCOUNTLEN + 1 && string[i]; i++) fn_str[k][i] = string[i];
        fn_str[k][i] = '\0';
        return in_fn.r[k];
    }
    return 1;
}
int model_xreply_ok(struct iauth_request *r, const char *service) { (void)r; (void)service; return in_xok; }
struct iauth_request *model_validate_request(const char *routing) { (void)routing; return NULL; }
int model_routing(const struct iauth_request *r, char routing[], size_t n) { (void)r; (void)routing; (void)n; return 1; }

static char pat_a[] = "a*", pat_u[] = "u*", pat_h[] = "h*", svc[] = "svc", rname[] = "rulename";

void h_rule_check(void)
{
    int res, k = 0, want;
    int acct_ok, addr_ok, user_ok, host_ok, x_ok;
    unsigned i, colon;
    const char *cls;
    char class0[CLASSLEN + 1];
    req = mk_request();
    V_IN(in_rule); V_IN(in_fn); V_IN(in_xok); V_IN(in_cname);
#ifdef CRIT
    /* one job per subset of the glob / service criteria (address prefix, class-vs-name and trust stay symbolic) */
    in_rule.have_account = ((CRIT) >> 0) & 1; in_rule.have_username = ((CRIT) >> 1) & 1;
    in_rule.have_hostname = ((CRIT) >> 2) & 1; in_rule.have_xreply = ((CRIT) >> 3) & 1;
#endif
    in_cname.s[CN_MAX - 1] = '\0';
    /* INV: an ident was recorded together with its flag (parse_ident) */
    V_ASSUME(req->auth_username[0] == '\0' || BITSET_GET(req->flags, IAUTH_GOT_IDENT));
    memset(&rule, 0, sizeof(rule));
    rule.name = in_rule.have_class ? rname : in_cname.s;
    rule.class = in_rule.have_class ? in_cname.s : NULL;
    rule.account = in_rule.have_account ? pat_a : NULL;
    rule.username = in_rule.have_username ? pat_u : NULL;
    rule.hostname = in_rule.have_hostname ? pat_h : NULL;
    rule.xreply_ok = in_rule.have_xreply ? svc : NULL;
    rule.address = in_rule.addr; rule.address_bits = in_rule.bits;
    rule.trust_username = in_rule.trust; rule.assigned = in_rule.assigned;
    V_ASSUME(rule.assigned < 1000000);
    for (i = 0; i < CLASSLEN + 1; i++) class0[i] = req->class[i];

    res = iauth_class_rule_check(&rule, 0, req);

    /* all criteria present must hold (conjunction), in the documented meaning */
    acct_ok = !rule.account || in_fn.r[k++] == 0;
    addr_ok = !rule.address_bits || spec_prefix_equal(&req->remote_addr, &rule.address, rule.address_bits);
    user_ok = !(acct_ok && addr_ok) || !rule.username || in_fn.r[k++] == 0;
    host_ok = !(acct_ok && addr_ok && user_ok) || !rule.hostname || in_fn.r[k++] == 0;
    x_ok = !rule.xreply_ok || in_xok > 0;
    want = acct_ok && addr_ok && user_ok && host_ok && x_ok;
    V_ASSERT((res == 1) == (want != 0) && (res == 0 || res == 1), "C11: a rule applies exactly when all of its criteria are satisfied");
    if (rule.account) {
        /* account glob ignoring the stamp suffix */
        V_ASSERT(fn_pat[0] == rule.account, "C11: the account criterion is matched with the rule's pattern");
        colon = ACCOUNTLEN + 1;
        for (i = 0; i < ACCOUNTLEN + 1; i++) if (colon == ACCOUNTLEN + 1 && (req->account[i] == ':' || req->account[i] == '\0')) colon = i;
        for (i = 0; i < ACCOUNTLEN + 1; i++)
            if (i < colon) V_ASSERT(fn_str[0][i] == req->account[i], "C11: the account glob sees the account name");
        V_ASSERT(fn_str[0][colon <= ACCOUNTLEN ? colon : ACCOUNTLEN] == '\0', "C11: the account glob ignores the stamp suffix after ':'");
    }
    if (res) {
        cls = rule.class ? rule.class : rule.name;
        for (i = 0; i < CLASSLEN + 1; i++) {
            if (i < CLASSLEN && cls[i] != '\0') V_ASSERT(req->class[i] == cls[i], "C11: the client is given the rule's class value, or else its name (up to CLASSLEN bytes)");
            else { V_ASSERT(req->class[i] == '\0', "C11: the class text ends where the rule's text ends"); break; }
        }
        V_ASSERT(rule.assigned == in_rule.assigned + 1, "C11: the rule's hit counter advances");
        if (rule.trust_username && req->auth_username[0] == '~') {
            V_ASSERT(G.usernames == 1 && G.username_kind == 'U' && G.username_text == req->cli_username + (req->cli_username[0] == '~'),
                     "C11: trust_username upgrades an untrusted (~) ident to the client-supplied user name");
        } else
            V_ASSERT(G.usernames == 0, "C11: no user name upgrade without trust_username and a ~ ident");
        V_ASSERT(G.gate_evals == 0, "C01: assigning a class just before acceptance cannot re-enter the gate (ident flag already set)");
    } else {
        for (i = 0; i < CLASSLEN + 1; i++) V_ASSERT(req->class[i] == class0[i], "C11: a rule that does not apply leaves the class alone");
        V_ASSERT(G.msgs == 0 && rule.assigned == in_rule.assigned, "C11: a rule that does not apply sends nothing");
    }
    V_CANARY();
}

/* ---- first matching rule in order decides; pre-assigned classes are skipped ---- */
struct { unsigned used; unsigned char match[4]; } in_rules;
static struct iauth_class_rule rules4[4];
static unsigned checked[4], n_checked;
static char cname[4][3] = { "c0", "c1", "c2", "c3" };

/* contract of iauth_class_rule_check for the scan: applies (returns 1, sets the class) or not */
int model_rule_check(struct iauth_class_rule *r, unsigned idx, struct iauth_request *rq)
{
    V_ASSERT(idx < 4 && r == &rules4[idx], "C11: rules are visited in vector order");
    if (n_checked < 4) checked[n_checked] = idx;
    n_checked++;
    if (in_rules.match[idx]) { rq->class[0] = cname[idx][0]; rq->class[1] = cname[idx][1]; rq->class[2] = '\0'; return 1; }
    return 0;
}

void h_class_assign(void)
{
    unsigned i, first = 4;
    int pre;
    req = mk_request();
    V_IN(in_rules);
    V_ASSUME(in_rules.used <= 4);
    cl_conf.rules.vec = rules4; cl_conf.rules.used = in_rules.used; cl_conf.rules.size = 4;
    pre = req->class[0] != '\0';
    for (i = 0; i < 4; i++) if (first == 4 && i < in_rules.used && in_rules.match[i]) first = i;
    iauth_class_assign(req);
    if (pre) {
        V_ASSERT(n_checked == 0, "C11: a client that already has a class is not re-classified");
    } else if (first < 4) {
        V_ASSERT(req->class[0] == 'c' && req->class[1] == (char)('0' + first), "C11: the first matching rule in order decides");
        V_ASSERT(n_checked == first + 1, "C11: the scan stops at the first hit");
    } else {
        V_ASSERT(req->class[0] == '\0' && n_checked == in_rules.used, "C11: no class when no rule matches");
    }
    for (i = 0; i < 4; i++) if (i < n_checked) V_ASSERT(checked[i] == i, "C11: rules are tried in their compiled order");
    V_CANARY();
}
