/* harness/iauth_common.h - shared by the IAuth harnesses: symbolic request, ghost module.
 * Included after units/u_iauth.c and the models. */
#ifndef VERIF_IAUTH_COMMON_H
#define VERIF_IAUTH_COMMON_H

/* ------------------------------------------------------------------ symbolic inputs */
struct iauth_request in_req;          /* every scalar / text field arbitrary */
unsigned int in_required;             /* iauth_flags: what the loaded modules require */
int in_have_timer;
int in_sock; short in_event;
struct { char s[80]; } in_text;       /* a server-supplied argument (over-long allowed) */
struct { char s[80]; } in_text2;
int in_argc;
int in_modcb_holds, in_modcb_soft;    /* what a module callback does to the counters */

static struct iauth_request *req;

/* a live, undecided request with arbitrary contents, indexed in the request table */
static struct iauth_request *mk_request(void)
{
    struct set_node *node = malloc(sizeof(struct set_node) + sizeof(struct iauth_request));
    struct iauth_request *r;
    V_ASSUME(node != NULL);
    r = set_node_data(node);
    V_IN(in_req); V_IN(in_required); V_IN(in_have_timer);
    *r = in_req;
    /* text fields are NUL-terminated (INV: established by the bounded copies, C06) */
    r->hostname[HOSTLEN] = 0; r->cli_username[USERLEN] = 0; r->auth_username[USERLEN] = 0;
    r->nickname[NICKLEN] = 0; r->realname[REALLEN] = 0; r->account[ACCOUNTLEN] = 0;
    r->class[CLASSLEN] = 0; r->text_addr[IRC_NTOP_MAX - 1] = 0;
    r->timeout = in_have_timer ? malloc(1) : NULL;
    V_ASSUME(r->start_time >= 0 && r->start_time < (1L << 40));          /* a sane clock (S3) */
    r->data.compare = set_compare_voidp; r->data.cleanup = NULL; r->data.root = NULL; r->data.count = 0;
    V_ASSUME(!RESPONDED(r));                       /* INV: live requests are undecided */
    iauth_flags.bits[0] = in_required & ~((1u << IAUTH_RESPONDED) | (1u << IAUTH_TIMED_OUT));   /* calc_iauth_flags, proved in C02.calc_flags */
    G.req = r; G.live = 1;
    return r;
}


/* The module table holds one ghost decision module whose callbacks implement the contract
 * of a decision module's data hooks: they may move the hold counters and send queries for
 * a LIVE request, they never retire it (the real hooks of iauth_xquery are proved against
 * this in the xq_* jobs). */
static struct iauth_module gmod;
static void gm_effect(struct iauth_request *r)
{
    V_ASSERT(r == G.req && G.live, "C01: a module hook is run for a retired request");
    r->holds = in_modcb_holds;
    r->soft_holds = in_modcb_soft;
}
static void gm_field_change(struct iauth_request *r, enum iauth_flags flag) { G.cb_field_change++; G.cb_last_flag = (int)flag; G.cb_flags_seen = r->flags.bits[0]; gm_effect(r); }
static void gm_user_info(struct iauth_request *r) { G.cb_user_info++; G.cb_flags_seen = r->flags.bits[0]; gm_effect(r); }
static void gm_password(struct iauth_request *r, const char pw[]) { G.cb_password++; G.cb_password_text = pw; gm_effect(r); }
static void gm_disconnect(struct iauth_request *r) { G.cb_disconnect++; (void)r; }
static void gm_registered(struct iauth_request *r, int from_ircd) { G.registered_cb++; (void)r; (void)from_ircd; }
static void gm_new_client(struct iauth_request *r) { G.cb_new_client++; (void)r; }

static void install_ghost_module(void)
{
    static struct set mods;
    gmod.owner = "ghost";
    gmod.field_change = gm_field_change; gmod.user_info = gm_user_info; gmod.password = gm_password;
    gmod.disconnect = gm_disconnect; gmod.registered = gm_registered; gmod.new_client = gm_new_client;
    gmod.node.l = gmod.node.r = gmod.node.prev = gmod.node.next = NULL;
    mods.compare = set_compare_charp; mods.cleanup = NULL; mods.root = &gmod.node; mods.count = 1;
    iauth_modules = &mods;
    V_IN(in_modcb_holds); V_IN(in_modcb_soft);
}


#endif
