/* harness/h_set_cmp.c - C19: the stock comparators of src/set.c */
#include "vh.h"
#include "spec/set.contracts.h"
#include "spec/ghost.h"

int in_x, in_y;
/* pointer keys: positions inside one object - the domain on which C defines the relational
 * operators; across distinct objects the flat address model is assumed (DESIGN §7) */
static char key_pool[4096];
unsigned short in_p, in_q;
struct { char s[9]; } in_s, in_t;

void h_compare_int(void)
{
    int r;
    V_IN(in_x); V_IN(in_y);
    r = set_compare_int(&in_x, &in_y);
    V_ASSERT(spec_sign(r) == spec_sign((long long)in_x - (long long)in_y),
             "C19: set_compare_int orders every pair of int keys like the integers");
    V_CANARY();
}

void h_compare_voidp(void)
{
    void *a, *b; int r;
    V_IN(in_p); V_IN(in_q);
    V_ASSUME(in_p < sizeof(key_pool) && in_q < sizeof(key_pool));
    a = key_pool + in_p; b = key_pool + in_q;
    r = set_compare_voidp(&a, &b);
    V_ASSERT(spec_sign(r) == (in_p < in_q ? -1 : in_p > in_q ? 1 : 0),
             "C19: set_compare_voidp orders pointer keys by address");
    V_CANARY();
}

void h_compare_ptr(void)
{
    int r;
    V_IN(in_p); V_IN(in_q);
    V_ASSUME(in_p < sizeof(key_pool) && in_q < sizeof(key_pool));
    r = set_compare_ptr(key_pool + in_p, key_pool + in_q);
    V_ASSERT(spec_sign(r) == (in_p < in_q ? -1 : in_p > in_q ? 1 : 0),
             "C19: set_compare_ptr orders keys by address");
    V_CANARY();
}

/* case-insensitive lexicographic order, written from the property (C-locale) */
static int spec_lower(int c) { return (c >= 'A' && c <= 'Z') ? c + ('a' - 'A') : c; }
static int spec_casecmp(const char *a, const char *b)
{
    unsigned i;
    for (i = 0; i < 9; i++) {
        int x = spec_lower((unsigned char)a[i]), y = spec_lower((unsigned char)b[i]);
        if (x != y) return x < y ? -1 : 1;
        if (x == 0) return 0;
    }
    return 0;
}

void h_compare_charp(void)
{
    char *a, *b; int r;
    V_IN(in_s); V_IN(in_t);
    V_ASSUME(in_s.s[8] == 0 && in_t.s[8] == 0);
    a = in_s.s; b = in_t.s;
    r = set_compare_charp(&a, &b);
    V_ASSERT(spec_sign(r) == spec_casecmp(a, b),
             "C19: set_compare_charp orders names case-insensitively (strings of up to 8 bytes)");
    V_CANARY();
}
