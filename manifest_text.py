"""Per-property texts for MANIFEST.json (kept apart from the job registry)."""
NOTES = ("Contract-based deductive verification with CBMC code contracts on the real sources; see DESIGN.md. "
         "exit 0 = all obligations discharged, exit 1 = VIOLATION, exit 2 = undecided (tool limit / time-out / broken anchor).")
NOT_CLAIMED = {}
_IAUTH_NOTE = ("callees are replaced by their executable contracts (spec/iauth_model.h: assert precondition, perform the specified effect on the request and the "
               "ghost log) and each contract is discharged on the real function in its own job; set.c is used through its sorted-map contract (spec/set_model.h), "
               "discharged for the real splay tree in C19 up to N elements; libevent, logging and stdio by contract (stubs/env_iauth.c); histories are covered by "
               "induction over the request invariant INV (DESIGN section 4), not by enumeration. No native replay driver for protocol-step obligations: the replay "
               "file carries the counterexample state; defects found were reproduced on the daemon with the histories under findings/.")
_CFG_NOTE = ("the real config.c / log.c / module.c are included verbatim in the harness TU; set.c through its sorted-map contract (C19); longjmp never returns and "
             "setjmp is modelled by its two kinds of return; allocators never fail (A4); stdio/libevent/loader by contract. No native replay drivers for these jobs; "
             "defects found were demonstrated natively or on the daemon (findings/).")
CLAIMS = {
 "C07": dict(
  text="C07 is a 2-run hyperproperty. What contracts decide, and what this check proves: every step taken for one client (data handlers, reply handler, query builder, "
       "registration/disconnect/announcement) leaves every OTHER request in the table, and every service record other than the answering one, untouched, finds "
       "requests only by their own id, and emits nothing that names another client. Together with C19 (lookup returns the element with that key) this is the "
       "'touches only that record' mechanism. NOT proved: that the emitted text is independent of shared counters - CBMC has no reads clause.",
  design_ref="§5 C07, §8", note=_IAUTH_NOTE, technique="CBMC per-function frame postconditions over two requests / several services (write-frame half of non-interference)"),
 "C17": dict(
  text="iauth_xquery_services_changed + config_service + unref are executed by the verifier for every section of 0-2 services and every previous table of 0-2 slots "
       "(holes, stale, still-referenced entries): afterwards exactly the validly named services are configured, with the new protocol, whatever the table held before "
       "(== a fresh start). The merge-side clause - an in-place edit below a section reaching the section hook - is a recorded finding (F13), see known_findings.json.",
  design_ref="§5 C17", note=_IAUTH_NOTE + " Rule-table rebuild (iauth_class_conf_changed) and the merge walk of conf_replace_value are not under contract.",
  technique="CBMC exhaustive concrete enumeration of small (section, previous table) pairs on the real functions"),
 "C14": dict(
  text="conf_read's control flow is proved for every error return of the parse phase (any longjmp code, any scratch-tree state): the merge into the live tree is not "
       "called, no hook runs, the live root is untouched, the error is reported; on success the merge runs exactly once and only after the last entry was parsed. "
       "The tokenizers conf_parse_whitespace / conf_parse_string are proved memory-safe with the cursor inside the buffer for EVERY byte buffer up to the stated length.",
  design_ref="§5 C14", note=_CFG_NOTE + " Tokenizer bound: 6-8 bytes (bounded, hence model_checking); the frame of conf_parse_entry itself is not under contract - the 'parse phase cannot "
       "touch the live tree' clause rests on conf_root not being reachable from it (static fact) plus the conf_read proof.",
  technique="CBMC harness proofs on the real functions; setjmp/longjmp by contract"),
 "C15": dict(
  text="Per node kind: conf_parse_string_value keeps/updates the typed value and calls the hook exactly when the effective value changes; conf_set_string_list_value makes the "
       "list equal to the new one (also when it shrinks to a prefix or to empty) and notifies exactly when it differs; a moved host/service pair stays valid after the "
       "scratch tree is released (single ownership); conf_read merges once on success.",
  design_ref="§5 C15", note=_CFG_NOTE + " The ordered merge of two object nodes (conf_replace_value, CONF_OBJECT) is not yet under contract; registration-order independence not decided.",
  technique="CBMC harness proofs per node kind with hook counters"),
 "C16": dict(
  text="Typed parsers against reference readings written from the property: booleans by keyword, intervals and volumes as the sum of their unit components, 'parsable' exactly "
       "for well-formed texts (every text up to 7 bytes); an unparsable typed value leaves the previous value in force without notification; quoted strings without escapes "
       "are read back byte for byte and end at their closing quote; white space and comments are skipped by the tokenizer (every buffer up to the bound).",
  design_ref="§5 C16", note=_CFG_NOTE + " The entry-level grammar clause (every admissible rendering of every tree; ';'/newline/'}' adjacency; repeated keys) is NOT decided by this technique "
       "here: a whole-parser run does not get through symbolic execution (DESIGN 2) and conf_parse_entry is not under contract. Escapes inside quoted strings: memory safety only.",
  technique="CBMC harness proofs of the value parsers against reference readings"),
 "C18": dict(
  text="log_parse_type_sevset is executed by the verifier on EVERY expression of one or two items over all six operators and seven names (case variants, unknown word), "
       "plus '*' and the dot-less form - 1808 cases, exhaustive for that grammar - and yields exactly the mathematical severity set, or 'ignored as a whole'; log_vmessage "
       "is proved to call each destination of the facility and of '*' exactly once with the right attribution and to write to stdout only in debug mode.",
  design_ref="§5 C18", note=_CFG_NOTE + " log_rescan_conf (routing after a reload) is not under contract; line completeness rests on log_file_log's single fprintf (stdio trusted).",
  technique="CBMC: exhaustive concrete enumeration of the expression grammar + per-function proof of the fan-out"),
 "C04": dict(
  text="iauth_routing o iauth_validate_request is proved to find exactly the instance (id, serial) the tag was issued for and nobody for a stale serial or unknown id "
       "(all ids/serials symbolic); every tag text up to 19 bytes yields the live request or NULL without memory errors; the reply handler is proved to have an "
       "EMPTY frame (request, client record, every service record, ghost log all unchanged) for a reply whose tag is invalid or whose service is not awaited; a new "
       "announcement gets serial+1.",
  design_ref="§5 C04", note=_IAUTH_NOTE + " strtol/strtoul and printf by models differential-tested against glibc at setup.",
  technique="CBMC harness proofs on the real functions: round trip + frame (no-change) postcondition"),
 "C05": dict(
  text="Per reply kind postconditions of the real reply handler (NO -> kill with reply+3 verbatim; MORE/AGAIN -> challenge with the text verbatim to this request; OK "
       "<acct> from a login-type service stamps exactly that account, a drone-check never does; +x exactly for clients that asked for hiding) and of iauth_accept "
       "(R exactly when an account stamp is held, else D).",
  design_ref="§5 C05", note=_IAUTH_NOTE, technique="CBMC per-function postconditions over the ghost log (pointer identity for verbatim relay)"),
 "C06": dict(
  text="The real query builder is proved, for every state, to send a query to exactly the services that are due (configured, not yet asked or password retry, "
       "protocol prerequisites met, login needs a password), with this client's nick/address/host/real name/credentials (pointer identity) and the user name "
       "'ident else ~claimed' within USERLEN (content); the core handlers are proved to copy server-supplied fields within their limits, NUL-terminated.",
  design_ref="§5 C06", note=_IAUTH_NOTE + " Service table of 2 slots (bounded). The password-shape clause (check_password) is not yet under contract.",
  technique="CBMC per-function postconditions over a ghost query log"),
 "C08": dict(
  text="The real tokenizer/dispatcher iauth_read is run on EVERY line up to the stated length (quick 10, thorough 16 bytes): no memory error, at most 16 arguments all "
       "inside the line, handlers only for live ids, each handler's dereferenced parameter present; EOF requests a clean loop exit, a read error changes nothing.",
  design_ref="§5 C08", note="bounded line length; libevent buffering/chunking is outside (S3) - the chunking-independence clause is not decidable by contracts on this code. " + _IAUTH_NOTE,
  technique="CBMC bounded harness on the real dispatcher, handlers replaced by their preconditions"),
 "C09": dict(
  text="The single formatter iauth_send is proved, for each of the 22 format strings used by the modules, to write exactly one line ending in the only newline, "
       "starting with the message type, and for client-directed messages <type> <id> <address text> <port> followed by the arguments verbatim; log_vmessage is "
       "proved to write to stdout only when verbosity was raised (debug mode). The address text denotes the announced address by C12.",
  design_ref="§5 C09", note="string arguments up to 11 bytes (bounded); printf by model; 'nothing else writes to stdout' is a static fact about the call graph, not a proof. " + _IAUTH_NOTE,
  technique="CBMC harness proofs of the real formatter against a read-back of the line"),
 "C11": dict(
  text="iauth_class_rule_check is proved to apply exactly when all present criteria hold (glob results uninterpreted, address prefix by the C13 spec, account glob on "
       "the name before ':'), to assign class-or-name, count the hit and upgrade a ~ ident only under trust_username; iauth_class_assign is proved to take the "
       "first matching rule in vector order, stop there, and skip pre-assigned clients.",
  design_ref="§5 C11", note="rule names up to 7 (quick) / 69 (thorough) bytes, 4 rules (bounded); rule compilation order (iauth_class_conf_changed) not yet under contract. " + _IAUTH_NOTE,
  technique="CBMC per-function postconditions, callee contracts"),
 "C01": dict(
  text="Per-function contracts over a ghost log of server-channel events: the gate, the three verdict functions, soft-done, every data handler, "
       "registration/disconnect and client announcement are each proved (real body, all inputs) to emit at most one verdict and one soft-done, to retire the "
       "request exactly once, to leave its id unknown afterwards and never to emit anything naming a retired request (precondition of the send contract).",
  design_ref="§5 C01", note=_IAUTH_NOTE, technique="CBMC per-function proofs with callee contracts over ghost state; induction over a request invariant"),
 "C02": dict(
  text="The single acceptance gate iauth_check_request is proved equivalent to the property's condition (no hard hold, undecided, all required data or hurry-up, "
       "nothing awaited unless the timeout expired); the hold counters are tied to '+! without stamp' and 'a service is awaited' by INV, whose preservation is "
       "proved for the reply handler, the query builder, the password handlers and the timeout handler.",
  design_ref="§5 C02/C03", note=_IAUTH_NOTE + " Service table bounded to 2-3 slots in the xquery jobs (bounded stand-in, hence model_checking).",
  technique="CBMC per-function proofs: gate postcondition + invariant preservation with callee contracts"),
 "C03": dict(
  text="Every state-changing step (each data handler, password, hurry-up, timeout, each reply kind) is proved to end with 'no live client that is ready and "
       "awaits nothing is left waiting' and with INV re-established, from an arbitrary INV state - so no history can leave such a client stuck.",
  design_ref="§5 C02/C03", note=_IAUTH_NOTE + " Service table bounded to 2-3 slots in the xquery jobs (bounded stand-in, hence model_checking).",
  technique="CBMC per-function proofs: step postcondition 'gate closed or verdict issued' + invariant preservation"),
 "C10": dict(
  text="parse_new_client / parse_registered / parse_disconnect with the real disposal callback are proved to keep the table size equal to announced-and-not-retired, "
       "to replace a live id by disposing the old record, and to release the request's timer and module data exactly once.",
  design_ref="§5 C10", note=_IAUTH_NOTE + " Real timer behaviour (a freed event never fires) is libevent's (S3).",
  technique="CBMC per-function proofs over the set contract with ghost counters"),
 "C12": dict(
  text="print->parse round trip on the real irc_ntop/irc_pton: fits IRC_NTOP_MAX, NUL-terminated, never starts with ':', own parser and the "
       "RFC 4291 reference parser read back exactly the (canonicalised) address, parse-then-print idempotent. Sharded by the zero-group pattern "
       "(258 shards incl. IPv4-mapped/-compatible); inside a shard every non-zero group is fully symbolic, so the thorough tier covers all 2^128 "
       "addresses. All loops are bounded by code constants (8 groups, 40 bytes) and unwound with unwinding assertions (width-complete).",
  design_ref="§5 C12",
  note="quick tier: 16 boundary shards restricted to one digit-length class each and to the core clauses - a slice, stated in evidence. "
       "inet_pton itself is out of CBMC's reach: a reference parser stands in, differential-tested against glibc at setup. The static "
       "dotted-quad parser is used through its contract (proved in C13.pton_ip4.quad.len16). Signed-shl overflow in 'ntohs(x) << 16' is not "
       "treated as a violation (GCC defines it; C12 does not speak about it).",
  technique="CBMC harness proof over real irc_ntop∘irc_pton per zero-pattern shard, callee by contract, width-complete unwinding"),
 "C19": dict(
  text="Stock comparators: contracts enforced over their whole key domain (int: all 2^64 pairs, pointers: all positions in one object; "
       "names: strings up to 8 bytes).  Tree operations: the inductive step 'well-formed set + one real operation => well-formed set "
       "whose abstract content, size, lower bound, iteration order and cleanup counts are those of the mathematical sorted map' is "
       "proved from EVERY well-formed tree (all BST shapes, symbolic keys) of up to N elements - N=4 quick, N=5 thorough.  Bounded in N, "
       "hence model_checking, not proof.",
  design_ref="§5 C19",
  note="bounded stand-in: tree size N (in job ids); CBMC has no inductive heap predicates, so the unbounded shape argument is not attempted. "
       "Pointer comparators: keys inside one object (where C defines the relation); flat address model assumed across objects.",
  technique="CBMC contracts on comparators (DFCC) + bounded inductive-step harness over all well-formed trees on the real set.c"),
 "C20": dict(
  text=("The real module.c (load from inside constructors, depth-first post-init walk with loop detection, unload in rounds) is executed by the verifier for EVERY "
        "dependency graph over three stub modules - all 512 matrices including cycles and self-dependencies - with the configuration naming m0 (quick; plus a rotating third "
        "of the graphs with the listing m1, m2), and for five listings (m0; m1; m2; m1, m2; m2, m1) in the thorough tier; plus unloadable-module cases and, for four modules, the diamond and a chain with an unrelated module under all 24 namings each and 96 (thorough: 256) pseudo-random graphs. "
        "Each run checks the property's clauses against the event log of the stub modules: constructed once, dependencies constructed first, post-init once and after the "
        "dependencies' (also along two paths), destructors before those of the dependencies, every module unloaded; a cycle or an unloadable module aborts start-up before "
        "any member of the cycle is post-initialised. One job per graph: the structure is concrete, so each run is an exact execution of the real code."),
  design_ref="§5 C20, §10.2",
  note=("bounded stand-in (exhaustive enumeration of small graphs, not a proof over all graphs): 3 modules exhaustively, 4 modules by families and samples; the property speaks of up "
        "to 6. dlopen/dlsym/dlclose by model (S4); module table through the set contract instantiated for the keys m0..m3; xmalloc/xrealloc by typed allocation models. "
        "Found and fixed F14 (two paths to one module taken for a loop)."),
  technique="CBMC bounded model checking of the real module.c, one job per dependency graph, postconditions over a ghost event log"),
 "C13": dict(
  text="irc_check_mask is proved equal to the 'leading bits equal' specification for every (address, mask, length) "
       "triple by enforcing its contract with DFCC (loops bounded by the 8 groups, unwinding assertions on).",
  design_ref="§5 C13",
  note="trusted: CBMC/DFCC, byte-order stubs (little-endian target). Parser clauses: see evidence jobs[] and obligations_by_class.",
  technique="CBMC function contracts (DFCC enforce), width-complete unwinding"),
}
