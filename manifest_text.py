"""Per-property texts for MANIFEST.json (kept apart from the job registry)."""
NOTES = ("Contract-based deductive verification with CBMC code contracts on the real sources; see DESIGN.md. "
         "exit 0 = all obligations discharged, exit 1 = VIOLATION, exit 2 = undecided (tool limit / time-out / broken anchor).")
NOT_CLAIMED = {}
CLAIMS = {
 "C13": dict(
  text="irc_check_mask is proved equal to the 'leading bits equal' specification for every (address, mask, length) "
       "triple by enforcing its contract with DFCC (loops bounded by the 8 groups, unwinding assertions on).",
  design_ref="§5 C13",
  note="trusted: CBMC/DFCC, byte-order stubs (little-endian target). Parser clauses: see evidence jobs[] and obligations_by_class.",
  technique="CBMC function contracts (DFCC enforce), width-complete unwinding"),
}
