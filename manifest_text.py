"""Per-property texts for MANIFEST.json (kept apart from the job registry)."""
NOTES = ("Contract-based deductive verification with CBMC code contracts on the real sources; see DESIGN.md. "
         "exit 0 = all obligations discharged, exit 1 = VIOLATION, exit 2 = undecided (tool limit / time-out / broken anchor).")
NOT_CLAIMED = {}
CLAIMS = {
 "C12": dict(
  text="print->parse round trip on the real irc_ntop/irc_pton: fits IRC_NTOP_MAX, NUL-terminated, never starts with ':', own parser and the "
       "RFC 4291 reference parser read back exactly the (canonicalised) address, parse-then-print idempotent. Sharded by the zero-group pattern "
       "(258 shards incl. IPv4-mapped/-compatible); inside a shard every non-zero group is fully symbolic, so the thorough tier covers all 2^128 "
       "addresses. All loops are bounded by code constants (8 groups, 40 bytes) and unwound with unwinding assertions (width-complete).",
  design_ref="§5 C12",
  note="quick tier: 16 boundary shards restricted to one digit-length class each and to the core clauses - a slice, stated in evidence. "
       "inet_pton itself is out of CBMC's reach: a reference parser stands in, differential-tested against glibc at setup. The static "
       "dotted-quad parser is used through its contract (proved in C13.pton_ip4.quad.len16). Signed-shl overflow in 'ntohs(x) << 16' is not "
       "treated as a violation (GCC defines it; C12 does not speak about it).",
  technique="CBMC harness proof over real irc_ntop∘irc_pton per zero-pattern shard, callee by contract, width-complete unwinding"),
 "C19": dict(
  text="Stock comparators: contracts enforced over their whole key domain (int: all 2^64 pairs, pointers: all positions in one object; "
       "names: strings up to 8 bytes).  Tree operations: the inductive step 'well-formed set + one real operation => well-formed set "
       "whose abstract content, size, lower bound, iteration order and cleanup counts are those of the mathematical sorted map' is "
       "proved from EVERY well-formed tree (all BST shapes, symbolic keys) of up to N elements - N=4 quick, N=5 thorough.  Bounded in N, "
       "hence model_checking, not proof.",
  design_ref="§5 C19",
  note="bounded stand-in: tree size N (in job ids); CBMC has no inductive heap predicates, so the unbounded shape argument is not attempted. "
       "Pointer comparators: keys inside one object (where C defines the relation); flat address model assumed across objects.",
  technique="CBMC contracts on comparators (DFCC) + bounded inductive-step harness over all well-formed trees on the real set.c"),
 "C13": dict(
  text="irc_check_mask is proved equal to the 'leading bits equal' specification for every (address, mask, length) "
       "triple by enforcing its contract with DFCC (loops bounded by the 8 groups, unwinding assertions on).",
  design_ref="§5 C13",
  note="trusted: CBMC/DFCC, byte-order stubs (little-endian target). Parser clauses: see evidence jobs[] and obligations_by_class.",
  technique="CBMC function contracts (DFCC enforce), width-complete unwinding"),
}
