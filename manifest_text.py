"""Per-property texts for MANIFEST.json (kept apart from the job registry)."""
NOTES = ("Contract-based deductive verification with CBMC code contracts on the real sources; see DESIGN.md. "
         "exit 0 = all obligations discharged, exit 1 = VIOLATION, exit 2 = undecided (tool limit / time-out / broken anchor).")
NOT_CLAIMED = {}
CLAIMS = {
 "C19": dict(
  text="Stock comparators: contracts enforced over their whole key domain (int: all 2^64 pairs, pointers: all positions in one object; "
       "names: strings up to 8 bytes).  Tree operations: the inductive step 'well-formed set + one real operation => well-formed set "
       "whose abstract content, size, lower bound, iteration order and cleanup counts are those of the mathematical sorted map' is "
       "proved from EVERY well-formed tree (all BST shapes, symbolic keys) of up to N elements - N=4 quick, N=5 thorough.  Bounded in N, "
       "hence model_checking, not proof.",
  design_ref="§5 C19",
  note="bounded stand-in: tree size N (in job ids); CBMC has no inductive heap predicates, so the unbounded shape argument is not attempted. "
       "Pointer comparators: keys inside one object (where C defines the relation); flat address model assumed across objects.",
  technique="CBMC contracts on comparators (DFCC) + bounded inductive-step harness over all well-formed trees on the real set.c"),
 "C13": dict(
  text="irc_check_mask is proved equal to the 'leading bits equal' specification for every (address, mask, length) "
       "triple by enforcing its contract with DFCC (loops bounded by the 8 groups, unwinding assertions on).",
  design_ref="§5 C13",
  note="trusted: CBMC/DFCC, byte-order stubs (little-endian target). Parser clauses: see evidence jobs[] and obligations_by_class.",
  technique="CBMC function contracts (DFCC enforce), width-complete unwinding"),
}
