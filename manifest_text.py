"""Per-property texts for MANIFEST.json (kept apart from the job registry)."""
NOTES = ("Contract-based deductive verification with CBMC code contracts on the real sources; see DESIGN.md. "
         "exit 0 = all obligations discharged, exit 1 = VIOLATION, exit 2 = undecided (tool limit / time-out / broken anchor).")
NOT_CLAIMED = {
 "C07": "2-run hyperproperty (same per-client projection under every interleaving): contracts decide only its write-frame part, which is checked inside the C01-C06/C10 jobs ('other clients' records untouched'); read-independence has no CBMC contract form (no reads clause) - see DESIGN 5 C07 / 8",
}
_IAUTH_NOTE = ("callees are replaced by their executable contracts (spec/iauth_model.h: assert precondition, perform the specified effect on the request and the "
               "ghost log) and each contract is discharged on the real function in its own job; set.c is used through its sorted-map contract (spec/set_model.h), "
               "discharged for the real splay tree in C19 up to N elements; libevent, logging and stdio by contract (stubs/env_iauth.c); histories are covered by "
               "induction over the request invariant INV (DESIGN section 4), not by enumeration. No native replay driver for protocol-step obligations: the replay "
               "file carries the counterexample state; defects found were reproduced on the daemon with the histories under findings/.")
CLAIMS = {
 "C04": dict(
  text="iauth_routing o iauth_validate_request is proved to find exactly the instance (id, serial) the tag was issued for and nobody for a stale serial or unknown id "
       "(all ids/serials symbolic); every tag text up to 19 bytes yields the live request or NULL without memory errors; the reply handler is proved to have an "
       "EMPTY frame (request, client record, every service record, ghost log all unchanged) for a reply whose tag is invalid or whose service is not awaited; a new "
       "announcement gets serial+1.",
  design_ref="§5 C04", note=_IAUTH_NOTE + " strtol/strtoul and printf by models differential-tested against glibc at setup.",
  technique="CBMC harness proofs on the real functions: round trip + frame (no-change) postcondition"),
 "C05": dict(
  text="Per reply kind postconditions of the real reply handler (NO -> kill with reply+3 verbatim; MORE/AGAIN -> challenge with the text verbatim to this request; OK "
       "<acct> from a login-type service stamps exactly that account, a drone-check never does; +x exactly for clients that asked for hiding) and of iauth_accept "
       "(R exactly when an account stamp is held, else D).",
  design_ref="§5 C05", note=_IAUTH_NOTE, technique="CBMC per-function postconditions over the ghost log (pointer identity for verbatim relay)"),
 "C06": dict(
  text="The real query builder is proved, for every state, to send a query to exactly the services that are due (configured, not yet asked or password retry, "
       "protocol prerequisites met, login needs a password), with this client's nick/address/host/real name/credentials (pointer identity) and the user name "
       "'ident else ~claimed' within USERLEN (content); the core handlers are proved to copy server-supplied fields within their limits, NUL-terminated.",
  design_ref="§5 C06", note=_IAUTH_NOTE + " Service table of 2 slots (bounded). The password-shape clause (check_password) is not yet under contract.",
  technique="CBMC per-function postconditions over a ghost query log"),
 "C08": dict(
  text="The real tokenizer/dispatcher iauth_read is run on EVERY line up to the stated length (quick 10, thorough 16 bytes): no memory error, at most 16 arguments all "
       "inside the line, handlers only for live ids, each handler's dereferenced parameter present; EOF requests a clean loop exit, a read error changes nothing.",
  design_ref="§5 C08", note="bounded line length; libevent buffering/chunking is outside (S3) - the chunking-independence clause is not decidable by contracts on this code. " + _IAUTH_NOTE,
  technique="CBMC bounded harness on the real dispatcher, handlers replaced by their preconditions"),
 "C09": dict(
  text="The single formatter iauth_send is proved, for each of the 22 format strings used by the modules, to write exactly one line ending in the only newline, "
       "starting with the message type, and for client-directed messages <type> <id> <address text> <port> followed by the arguments verbatim; log_vmessage is "
       "proved to write to stdout only when verbosity was raised (debug mode). The address text denotes the announced address by C12.",
  design_ref="§5 C09", note="string arguments up to 11 bytes (bounded); printf by model; 'nothing else writes to stdout' is a static fact about the call graph, not a proof. " + _IAUTH_NOTE,
  technique="CBMC harness proofs of the real formatter against a read-back of the line"),
 "C11": dict(
  text="iauth_class_rule_check is proved to apply exactly when all present criteria hold (glob results uninterpreted, address prefix by the C13 spec, account glob on "
       "the name before ':'), to assign class-or-name, count the hit and upgrade a ~ ident only under trust_username; iauth_class_assign is proved to take the "
       "first matching rule in vector order, stop there, and skip pre-assigned clients.",
  design_ref="§5 C11", note="rule names up to 7 (quick) / 69 (thorough) bytes, 4 rules (bounded); rule compilation order (iauth_class_conf_changed) not yet under contract. " + _IAUTH_NOTE,
  technique="CBMC per-function postconditions, callee contracts"),
 "C01": dict(
  text="Per-function contracts over a ghost log of server-channel events: the gate, the three verdict functions, soft-done, every data handler, "
       "registration/disconnect and client announcement are each proved (real body, all inputs) to emit at most one verdict and one soft-done, to retire the "
       "request exactly once, to leave its id unknown afterwards and never to emit anything naming a retired request (precondition of the send contract).",
  design_ref="§5 C01", note=_IAUTH_NOTE, technique="CBMC per-function proofs with callee contracts over ghost state; induction over a request invariant"),
 "C02": dict(
  text="The single acceptance gate iauth_check_request is proved equivalent to the property's condition (no hard hold, undecided, all required data or hurry-up, "
       "nothing awaited unless the timeout expired); the hold counters are tied to '+! without stamp' and 'a service is awaited' by INV, whose preservation is "
       "proved for the reply handler, the query builder, the password handlers and the timeout handler.",
  design_ref="§5 C02/C03", note=_IAUTH_NOTE + " Service table bounded to 2-3 slots in the xquery jobs (bounded stand-in, hence model_checking).",
  technique="CBMC per-function proofs: gate postcondition + invariant preservation with callee contracts"),
 "C03": dict(
  text="Every state-changing step (each data handler, password, hurry-up, timeout, each reply kind) is proved to end with 'no live client that is ready and "
       "awaits nothing is left waiting' and with INV re-established, from an arbitrary INV state - so no history can leave such a client stuck.",
  design_ref="§5 C02/C03", note=_IAUTH_NOTE + " Service table bounded to 2-3 slots in the xquery jobs (bounded stand-in, hence model_checking).",
  technique="CBMC per-function proofs: step postcondition 'gate closed or verdict issued' + invariant preservation"),
 "C10": dict(
  text="parse_new_client / parse_registered / parse_disconnect with the real disposal callback are proved to keep the table size equal to announced-and-not-retired, "
       "to replace a live id by disposing the old record, and to release the request's timer and module data exactly once.",
  design_ref="§5 C10", note=_IAUTH_NOTE + " Real timer behaviour (a freed event never fires) is libevent's (S3).",
  technique="CBMC per-function proofs over the set contract with ghost counters"),
 "C12": dict(
  text="print->parse round trip on the real irc_ntop/irc_pton: fits IRC_NTOP_MAX, NUL-terminated, never starts with ':', own parser and the "
       "RFC 4291 reference parser read back exactly the (canonicalised) address, parse-then-print idempotent. Sharded by the zero-group pattern "
       "(258 shards incl. IPv4-mapped/-compatible); inside a shard every non-zero group is fully symbolic, so the thorough tier covers all 2^128 "
       "addresses. All loops are bounded by code constants (8 groups, 40 bytes) and unwound with unwinding assertions (width-complete).",
  design_ref="§5 C12",
  note="quick tier: 16 boundary shards restricted to one digit-length class each and to the core clauses - a slice, stated in evidence. "
       "inet_pton itself is out of CBMC's reach: a reference parser stands in, differential-tested against glibc at setup. The static "
       "dotted-quad parser is used through its contract (proved in C13.pton_ip4.quad.len16). Signed-shl overflow in 'ntohs(x) << 16' is not "
       "treated as a violation (GCC defines it; C12 does not speak about it).",
  technique="CBMC harness proof over real irc_ntop∘irc_pton per zero-pattern shard, callee by contract, width-complete unwinding"),
 "C19": dict(
  text="Stock comparators: contracts enforced over their whole key domain (int: all 2^64 pairs, pointers: all positions in one object; "
       "names: strings up to 8 bytes).  Tree operations: the inductive step 'well-formed set + one real operation => well-formed set "
       "whose abstract content, size, lower bound, iteration order and cleanup counts are those of the mathematical sorted map' is "
       "proved from EVERY well-formed tree (all BST shapes, symbolic keys) of up to N elements - N=4 quick, N=5 thorough.  Bounded in N, "
       "hence model_checking, not proof.",
  design_ref="§5 C19",
  note="bounded stand-in: tree size N (in job ids); CBMC has no inductive heap predicates, so the unbounded shape argument is not attempted. "
       "Pointer comparators: keys inside one object (where C defines the relation); flat address model assumed across objects.",
  technique="CBMC contracts on comparators (DFCC) + bounded inductive-step harness over all well-formed trees on the real set.c"),
 "C13": dict(
  text="irc_check_mask is proved equal to the 'leading bits equal' specification for every (address, mask, length) "
       "triple by enforcing its contract with DFCC (loops bounded by the 8 groups, unwinding assertions on).",
  design_ref="§5 C13",
  note="trusted: CBMC/DFCC, byte-order stubs (little-endian target). Parser clauses: see evidence jobs[] and obligations_by_class.",
  technique="CBMC function contracts (DFCC enforce), width-complete unwinding"),
}
