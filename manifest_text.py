"""Per-property texts for MANIFEST.json (kept apart from the job registry)."""
NOTES = ("Contract-based deductive verification with CBMC code contracts on the real sources; see DESIGN.md. "
         "exit 0 = all obligations discharged, exit 1 = VIOLATION, exit 2 = undecided (tool limit / time-out / broken anchor).")
NOT_CLAIMED = {}
_IAUTH_NOTE = ("callees are replaced by their executable contracts (spec/iauth_model.h: assert precondition, perform the specified effect on the request and the "
               "ghost log) and each contract is discharged on the real function in its own job; set.c is used through its sorted-map contract (spec/set_model.h), "
               "discharged for the real splay tree in C19 up to N elements; libevent, logging and stdio by contract (stubs/env_iauth.c); histories are covered by "
               "induction over the request invariant INV (DESIGN section 4), not by enumeration. No native replay driver for protocol-step obligations: the replay "
               "file carries the counterexample state; defects found were reproduced on the daemon with the histories under findings/.")
CLAIMS = {
 "C01": dict(
  text="Per-function contracts over a ghost log of server-channel events: the gate, the three verdict functions, soft-done, every data handler, "
       "registration/disconnect and client announcement are each proved (real body, all inputs) to emit at most one verdict and one soft-done, to retire the "
       "request exactly once, to leave its id unknown afterwards and never to emit anything naming a retired request (precondition of the send contract).",
  design_ref="§5 C01", note=_IAUTH_NOTE, technique="CBMC per-function proofs with callee contracts over ghost state; induction over a request invariant"),
 "C02": dict(
  text="The single acceptance gate iauth_check_request is proved equivalent to the property's condition (no hard hold, undecided, all required data or hurry-up, "
       "nothing awaited unless the timeout expired); the hold counters are tied to '+! without stamp' and 'a service is awaited' by INV, whose preservation is "
       "proved for the reply handler, the query builder, the password handlers and the timeout handler.",
  design_ref="§5 C02/C03", note=_IAUTH_NOTE + " Service table bounded to 2-3 slots in the xquery jobs (bounded stand-in, hence model_checking).",
  technique="CBMC per-function proofs: gate postcondition + invariant preservation with callee contracts"),
 "C03": dict(
  text="Every state-changing step (each data handler, password, hurry-up, timeout, each reply kind) is proved to end with 'no live client that is ready and "
       "awaits nothing is left waiting' and with INV re-established, from an arbitrary INV state - so no history can leave such a client stuck.",
  design_ref="§5 C02/C03", note=_IAUTH_NOTE + " Service table bounded to 2-3 slots in the xquery jobs (bounded stand-in, hence model_checking).",
  technique="CBMC per-function proofs: step postcondition 'gate closed or verdict issued' + invariant preservation"),
 "C10": dict(
  text="parse_new_client / parse_registered / parse_disconnect with the real disposal callback are proved to keep the table size equal to announced-and-not-retired, "
       "to replace a live id by disposing the old record, and to release the request's timer and module data exactly once.",
  design_ref="§5 C10", note=_IAUTH_NOTE + " Real timer behaviour (a freed event never fires) is libevent's (S3).",
  technique="CBMC per-function proofs over the set contract with ghost counters"),
 "C12": dict(
  text="print->parse round trip on the real irc_ntop/irc_pton: fits IRC_NTOP_MAX, NUL-terminated, never starts with ':', own parser and the "
       "RFC 4291 reference parser read back exactly the (canonicalised) address, parse-then-print idempotent. Sharded by the zero-group pattern "
       "(258 shards incl. IPv4-mapped/-compatible); inside a shard every non-zero group is fully symbolic, so the thorough tier covers all 2^128 "
       "addresses. All loops are bounded by code constants (8 groups, 40 bytes) and unwound with unwinding assertions (width-complete).",
  design_ref="§5 C12",
  note="quick tier: 16 boundary shards restricted to one digit-length class each and to the core clauses - a slice, stated in evidence. "
       "inet_pton itself is out of CBMC's reach: a reference parser stands in, differential-tested against glibc at setup. The static "
       "dotted-quad parser is used through its contract (proved in C13.pton_ip4.quad.len16). Signed-shl overflow in 'ntohs(x) << 16' is not "
       "treated as a violation (GCC defines it; C12 does not speak about it).",
  technique="CBMC harness proof over real irc_ntop∘irc_pton per zero-pattern shard, callee by contract, width-complete unwinding"),
 "C19": dict(
  text="Stock comparators: contracts enforced over their whole key domain (int: all 2^64 pairs, pointers: all positions in one object; "
       "names: strings up to 8 bytes).  Tree operations: the inductive step 'well-formed set + one real operation => well-formed set "
       "whose abstract content, size, lower bound, iteration order and cleanup counts are those of the mathematical sorted map' is "
       "proved from EVERY well-formed tree (all BST shapes, symbolic keys) of up to N elements - N=4 quick, N=5 thorough.  Bounded in N, "
       "hence model_checking, not proof.",
  design_ref="§5 C19",
  note="bounded stand-in: tree size N (in job ids); CBMC has no inductive heap predicates, so the unbounded shape argument is not attempted. "
       "Pointer comparators: keys inside one object (where C defines the relation); flat address model assumed across objects.",
  technique="CBMC contracts on comparators (DFCC) + bounded inductive-step harness over all well-formed trees on the real set.c"),
 "C13": dict(
  text="irc_check_mask is proved equal to the 'leading bits equal' specification for every (address, mask, length) "
       "triple by enforcing its contract with DFCC (loops bounded by the 8 groups, unwinding assertions on).",
  design_ref="§5 C13",
  note="trusted: CBMC/DFCC, byte-order stubs (little-endian target). Parser clauses: see evidence jobs[] and obligations_by_class.",
  technique="CBMC function contracts (DFCC enforce), width-complete unwinding"),
}
