"""vlib.core - staging, loop-contract injection, CBMC pipeline, result parsing, replay.

Everything here is mechanical plumbing around goto-cc / goto-instrument / cbmc.  The
specifications live in /verif/spec, /verif/harness and /verif/obligations.py.
"""
import json, os, re, resource, shutil, subprocess, sys, tempfile, time, hashlib
from concurrent.futures import ThreadPoolExecutor

VERIF = os.path.dirname(os.path.dirname(os.path.abspath(__file__)))
REPO = os.environ.get("VERIF_REPO", "/repo")
BASE_DEFS = ["-D__NO_CTYPE", '-DSYSCONFDIR="/etc"', '-DMODULESDIR="/lib"', '-DLOGDIR="/log"',
             "-DVERIF_CBMC"]
NPROC = int(os.environ.get("VERIF_JOBS", os.cpu_count() or 4))


class Undecided(Exception):
    """tool limit, time-out, broken anchor: never a violation (exit 2)"""


# --------------------------------------------------------------------------- staging

def stage(tmp):
    """Copy the *current working tree* sources into tmp/repo.  Dropped: nothing.
    Returns the staged root."""
    root = os.path.join(tmp, "repo")
    os.makedirs(root)
    for d in ("src", "modules"):
        os.makedirs(os.path.join(root, d))
        for f in sorted(os.listdir(os.path.join(REPO, d))):
            if f.endswith((".c", ".h")):
                shutil.copy(os.path.join(REPO, d, f), os.path.join(root, d, f))
    shutil.copy(os.path.join(REPO, "autoconf.h"), os.path.join(root, "autoconf.h"))
    return root


# ------------------------------------------------------------- loop-contract injection

def _strip_map(text):
    """Return text with comments / string / char literals blanked (same length)."""
    out = list(text)
    i, n = 0, len(text)
    while i < n:
        c = text[i]
        if text.startswith("/*", i):
            j = text.find("*/", i + 2)
            j = n if j < 0 else j + 2
            for k in range(i, j):
                if out[k] != "\n":
                    out[k] = " "
            i = j
        elif text.startswith("//", i):
            j = text.find("\n", i)
            j = n if j < 0 else j
            for k in range(i, j):
                out[k] = " "
            i = j
        elif c in "\"'":
            j = i + 1
            while j < n and text[j] != c:
                j += 2 if text[j] == "\\" else 1
            for k in range(i + 1, min(j, n)):
                if out[k] != "\n":
                    out[k] = " "
            i = j + 1
        else:
            i += 1
    return "".join(out)


def _match(s, i, o, c):
    depth = 0
    while i < len(s):
        if s[i] == o:
            depth += 1
        elif s[i] == c:
            depth -= 1
            if depth == 0:
                return i
        i += 1
    raise Undecided("unbalanced %s%s" % (o, c))


def find_function_body(text, blank, func):
    """(start, end) offsets of the body braces of the file-scope definition of func."""
    hits = []
    for m in re.finditer(r"\b%s\s*\(" % re.escape(func), blank):
        # file scope: brace depth 0 before the match
        pre = blank[:m.start()]
        if pre.count("{") != pre.count("}"):
            continue
        close = _match(blank, m.end() - 1, "(", ")")
        k = close + 1
        while k < len(blank) and blank[k] in " \t\r\n":
            k += 1
        if k < len(blank) and blank[k] == "{":
            hits.append((k, _match(blank, k, "{", "}")))
    if len(hits) != 1:
        raise Undecided("function %s: %d definitions found" % (func, len(hits)))
    return hits[0]


def inject_loop_contracts(root, table, log):
    """table rows: dict(file, func, ordinal, anchor, clauses).  The ordinal counts the
    keywords for/while/do textually inside the function body (0-based); anchor is a regex
    that must match the loop header text.  Clauses are inserted between the header's
    closing parenthesis and the loop body.  Must fire exactly once per row."""
    byfile = {}
    for row in table:
        byfile.setdefault(row["file"], []).append(row)
    for rel, rows in byfile.items():
        path = os.path.join(root, rel)
        text = open(path).read()
        blank = _strip_map(text)
        inserts = []
        for row in rows:
            b0, b1 = find_function_body(text, blank, row["func"])
            kws = [m for m in re.finditer(r"\b(for|while|do)\b", blank[b0:b1])]
            if row["ordinal"] >= len(kws):
                raise Undecided("%s:%s has no loop #%d" % (rel, row["func"], row["ordinal"]))
            m = kws[row["ordinal"]]
            if m.group(1) == "do":
                raise Undecided("do-loops are not supported by the injector")
            p = b0 + m.end()
            while blank[p] in " \t\r\n":
                p += 1
            if blank[p] != "(":
                raise Undecided("%s:%s loop #%d: no header" % (rel, row["func"], row["ordinal"]))
            q = _match(blank, p, "(", ")")
            header = text[b0 + m.start():q + 1]
            if not re.search(row["anchor"], header):
                raise Undecided("%s:%s loop #%d: anchor %r does not match %r"
                                % (rel, row["func"], row["ordinal"], row["anchor"], header))
            inserts.append((q + 1, "\n" + row["clauses"].strip() + "\n"))
            log.append({"file": rel, "func": row["func"], "loop": row["ordinal"],
                        "header": header, "inserted": row["clauses"].strip()})
        for pos, ins in sorted(inserts, reverse=True):
            text = text[:pos] + ins + text[pos:]
        open(path, "w").write(text)


# --------------------------------------------------------------------------- running

def _limits(mem_gb):
    def f():
        lim = int(mem_gb * (1 << 30))
        resource.setrlimit(resource.RLIMIT_AS, (lim, lim))
        os.setsid()
    return f


RUNNING = set()


def kill_children(*_):
    """SIGTERM / SIGINT handler of the driver: take the verifier processes down with it"""
    import signal
    for pid in list(RUNNING):
        try:
            os.killpg(pid, signal.SIGKILL)
        except Exception:
            pass
    os._exit(2)


def run(cmd, cwd, timeout, mem_gb=12, out=None):
    import signal
    t0 = time.time()
    p = subprocess.Popen(cmd, cwd=cwd, stdout=subprocess.PIPE, stderr=subprocess.STDOUT,
                         preexec_fn=_limits(mem_gb))
    RUNNING.add(p.pid)
    try:
        o, _ = p.communicate(timeout=timeout)
        rc, txt = p.returncode, o.decode("utf-8", "replace")
    except subprocess.TimeoutExpired:
        try:
            os.killpg(p.pid, signal.SIGKILL)   # cbmc and its external solver
        except ProcessLookupError:
            pass
        o, _ = p.communicate()
        rc, txt = -9, (o or b"").decode("utf-8", "replace") + "\nTIMEOUT"
    RUNNING.discard(p.pid)
    if out:
        open(out, "w").write(txt)
    return rc, txt, time.time() - t0


def vpath(p):
    return p if os.path.isabs(p) else os.path.join(VERIF, p)


def build_goto(job, root, wdir, extra_defs=()):
    """goto-cc (+ optional body removal) (+ goto-instrument).  Returns path of final .gb"""
    inc = ["-I", root, "-I", os.path.join(VERIF, "include"), "-I", VERIF]
    defs = BASE_DEFS + ["-D" + d for d in job.get("defines", [])] + list(extra_defs)
    real = []
    for s in job.get("srcs", []):
        real.append(vpath(s) if s.startswith(("units/", "stubs/", "harness/")) else os.path.join(root, s))
    entry = job["entry"]
    a = os.path.join(wdir, "a.gb")
    cmd = ["goto-cc"] + inc + defs + ["--function", entry, vpath(job["harness"])] \
        + [vpath(s) for s in job.get("stubs", [])] + real + ["-o", a]
    rc, txt, _ = run(cmd, wdir, 300)
    if rc:
        raise Undecided("goto-cc failed:\n" + txt[-3000:])
    if job.get("remove_bodies"):
        # callee abstraction by executable contract: drop the real body, link the stub that
        # asserts the precondition and produces exactly the contract's effect
        cur = a
        for i, fn in enumerate(job["remove_bodies"]):
            nxt = os.path.join(wdir, "a_rm%d.gb" % i)
            rc, txt2, _ = run(["goto-instrument", "--remove-function-body", fn, cur, nxt], wdir, 300)
            if rc or "not found" in txt2:
                raise Undecided("remove-function-body %s failed:\n%s" % (fn, txt2[-1000:]))
            cur = nxt
        a = os.path.join(wdir, "a_linked.gb")
        tdefs = ["-DTRAMP_" + fn for fn in job["remove_bodies"]]
        rc, txt2, _ = run(["goto-cc"] + inc + defs + tdefs + ["--function", entry, cur]
                          + [vpath(s) for s in job.get("late_stubs", [])] + ["-o", a], wdir, 300)
        if rc:
            raise Undecided("linking contract stubs failed:\n" + txt2[-3000:])
        txt += txt2
    job["_cc_log"] = txt
    if job.get("havoc_bodies"):
        # frame-only abstraction of a callee: body := havoc everything reachable through the
        # pointer parameters, return any value  (== contract assigns(*params) ensures(true))
        a2 = os.path.join(wdir, "a_havoc.gb")
        hc = ["goto-instrument"]
        for fn in job["havoc_bodies"]:
            hc += ["--generate-function-body", fn]
        hc += ["--generate-function-body-options", "havoc,params:.*", a, a2]
        # generate-function-body only fills body-less functions: drop the real body first
        cur = a
        for i, fn in enumerate(job["havoc_bodies"]):
            nxt = os.path.join(wdir, "a_nobody%d.gb" % i)
            rc, txt, _ = run(["goto-instrument", "--remove-function-body", fn, cur, nxt], wdir, 300)
            if rc or "not found" in txt:
                raise Undecided("remove-function-body %s failed: %s" % (fn, txt[-500:]))
            cur = nxt
        hc[-2] = cur
        rc, txt, _ = run(hc, wdir, 300)
        if rc:
            raise Undecided("generate-function-body failed: " + txt[-1000:])
        a = a2
    if job.get("fp_valueset"):
        # resolve function pointers by a flow-insensitive points-to analysis instead of CBMC's
        # default "every function of a compatible type" (sound: every assigned target is kept)
        a3 = os.path.join(wdir, "a_fp.gb")
        rc, txt3, _ = run(["goto-instrument", "--value-set-fi-fp-removal", a, a3], wdir, 600, mem_gb=job.get("mem", 12))
        if rc:
            raise Undecided("value-set function pointer removal failed: " + txt3[-800:])
        a = a3
    if job.get("restrict_fp"):
        # a call through a pointer that lives in a heap object: name its possible targets (the
        # instrumentation ASSERTS that the pointer is one of them, so a wrong list is a failed
        # obligation, not an unsound restriction)
        a4 = os.path.join(wdir, "a_rfp.gb")
        rcmd = ["goto-instrument"]
        for r in job["restrict_fp"]:
            rcmd += ["--restrict-function-pointer", r]
        rc, txt4, _ = run(rcmd + [a, a4], wdir, 600, mem_gb=job.get("mem", 12))
        if rc:
            raise Undecided("restrict-function-pointer failed: " + txt4[-800:])
        a = a4
    enforce, replace = job.get("enforce", []), job.get("replace", [])
    if not (enforce or replace or job.get("loops")):
        return a, " ".join(cmd[:1] + ["…"])
    b = os.path.join(wdir, "b.gb")
    icmd = ["goto-instrument", "--dfcc", entry]
    for f in enforce:
        icmd += ["--enforce-contract", f]
    for f in replace:
        icmd += ["--replace-call-with-contract", f]
    if job.get("loops"):
        icmd += ["--apply-loop-contracts"]
    icmd += job.get("instrument_flags", [])
    icmd += [a, b]
    rc, txt, _ = run(icmd, wdir, 600, mem_gb=job.get("mem", 12))
    open(os.path.join(wdir, "instrument.log"), "w").write(txt)
    if rc:
        raise Undecided("goto-instrument failed:\n" + txt[-3000:])
    job["_instr_log"] = txt
    return b, " ".join(os.path.basename(x) if os.sep in x else x for x in icmd)


CHECKS = {
    "ptr": ["--pointer-check", "--bounds-check"],
    "ovf": ["--signed-overflow-check"],
    "shift": ["--undefined-shift-check"],
    "div": ["--div-by-zero-check"],
    "conv": ["--conversion-check"],
    "prim": ["--pointer-primitive-check"],
    "leak": ["--memory-leak-check"],
}


def unwindset_for(job, gb, wdir):
    """Map unwind rules (function, regex on the loop's source line, bound) to CBMC loop ids.
    Loop ids are positional, so they are recomputed from the binary on every run."""
    rules = job.get("unwind_rules")
    if not rules:
        return []
    rc, txt, _ = run(["cbmc", gb, "--show-loops", "--json-ui"], wdir, 300)
    try:
        data = json.loads(txt)
    except Exception:
        raise Undecided("show-loops failed")
    pairs, used = [], set()
    cache = {}
    for e in data:
        for lp in (e.get("loops", []) if isinstance(e, dict) else []):
            loc = lp.get("sourceLocation", {})
            fn, f, ln = loc.get("function", ""), loc.get("file", ""), int(loc.get("line", "0") or 0)
            if f and not os.path.isabs(f):
                f = os.path.join(loc.get("workingDirectory", wdir), f)
            if f not in cache:
                try:
                    cache[f] = open(f).read().split("\n")
                except Exception:
                    cache[f] = []
            text = cache[f][ln - 1] if 0 < ln <= len(cache[f]) else ""
            for i, (rf, rx, bound) in enumerate(rules):
                if rf == fn and re.search(rx, text):
                    pairs.append("%s:%d" % (lp["name"], bound))
                    used.add(i)
                    break
    for i, (rf, rx, bound) in enumerate(rules):
        if i not in used and not job.get("unwind_rules_optional"):
            raise Undecided("unwind rule %s/%s matched no loop (source changed?)" % (rf, rx))
    return ["--unwindset", ",".join(pairs)] if pairs else []


def cbmc_cmd(job, gb, extra=()):
    cmd = ["cbmc", gb, "--no-standard-checks", "--drop-unused-functions"]
    for c in job.get("checks", ["ptr"]):
        cmd += CHECKS[c]
    flags = list(job.get("cbmc", [])) + list(job.get("_unwindset", []))
    sets, rest, i = [], [], 0
    while i < len(flags):            # merge every --unwindset into one option
        if flags[i] == "--unwindset":
            sets.append(flags[i + 1]); i += 2
        else:
            rest.append(flags[i]); i += 1
    cmd += rest + (["--unwindset", ",".join(sets)] if sets else [])
    solver = job.get("solver", "minisat")
    if solver == "kissat":
        cmd += ["--external-sat-solver", "kissat"]
    elif solver == "cadical":
        cmd += ["--sat-solver", "cadical"]
    elif solver == "cvc5":
        cmd += ["--cvc5"]
    elif solver == "z3":
        cmd += ["--z3"]
    cmd += list(extra)
    return cmd


def parse_json_ui(txt):
    """-> (results list, messages list).  Tolerates a truncated stream."""
    try:
        data = json.loads(txt)
    except Exception:
        # cbmc was killed mid-stream: salvage nothing
        return None, []
    results, msgs = [], []
    for e in data:
        if isinstance(e, dict):
            if "result" in e:
                results = e["result"]
            elif "messageText" in e:
                msgs.append((e.get("messageType", ""), e["messageText"]))
    return results, msgs


BAD_MSG = [re.compile(p) for p in (r"ignoring forall", r"ignoring exists", r"no body for function",
                                   r"no body for callee", r"function pointer .* has no candidates",
                                   r"not a valid function pointer target")]


def run_job(job, root, tmp):
    """Run one obligation group.  Returns a result dict."""
    t0 = time.time()
    wdir = os.path.join(tmp, "job-" + re.sub(r"[^A-Za-z0-9_.-]", "_", job["id"]))
    os.makedirs(wdir, exist_ok=True)
    res = {"id": job["id"], "prop": job["prop"], "class": job.get("cls", "proof"),
           "functions": job.get("functions", []), "enforced": job.get("enforce", []),
           "replaced": job.get("replace", []), "status": "ok", "props": [], "failed": [],
           "solver": job.get("solver", "minisat"), "wdir": wdir}
    try:
        gb, icmd = build_goto(job, root, wdir)
        res["instrument_cmd"] = icmd
        res["gb"] = gb
        job["_unwindset"] = unwindset_for(job, gb, wdir)
        cmd = cbmc_cmd(job, gb, ["--json-ui"])
        res["cbmc_cmd"] = " ".join(["cbmc", "<gb>"] + cmd[2:])
        open(os.path.join(wdir, "cmd.txt"), "w").write(" ".join(cmd))
        rc, txt, dt = run(cmd, wdir, job.get("timeout", 900), job.get("mem", 12),
                          out=os.path.join(wdir, "cbmc.json"))
        res["solver_s"] = round(dt, 2)
        if rc == -9:
            raise Undecided("cbmc timed out after %ss" % job.get("timeout", 900))
        results, msgs = parse_json_ui(txt)
        if results is None or (not results and rc not in (0, 10)):
            raise Undecided("cbmc gave no result (rc=%s): %s" % (rc, txt[-1500:]))
        allow = job.get("nobody_ok", [])
        for typ, m in msgs:
            for pat in BAD_MSG:
                if pat.search(m):
                    fn = re.search(r"no body for (?:function|callee) (\S+)", m)
                    if fn and fn.group(1) in allow:
                        continue
                    raise Undecided("verifier warning: " + m)
        for typ, m in msgs:
            if typ == "ERROR":
                raise Undecided("cbmc error: " + m[:300])
        canaries = 0
        for r in results:
            is_canary = "vacuity canary" in r.get("description", "")
            if is_canary:
                if r["status"] == "FAILURE":
                    canaries += 1
                continue
            ent = {"id": r["property"], "status": r["status"], "desc": r.get("description", ""),
                   "loc": "%s:%s" % (r.get("sourceLocation", {}).get("file", "?"),
                                     r.get("sourceLocation", {}).get("line", "?"))}
            res["props"].append(ent)
            if r["status"] == "FAILURE" and ("unwinding assertion" in ent["desc"] or "recursion unwinding" in ent["desc"]) \
                    and not job.get("unwind_violation"):
                res.setdefault("unwind_failed", []).append(ent)
            elif r["status"] == "FAILURE":
                res["failed"].append(ent)
            elif r["status"] != "SUCCESS":
                res.setdefault("unknown", []).append(ent)
        # a failed unwinding assertion makes the SUCCESSES of this run unsound (paths beyond the bound
        # were cut), not its failures: a counterexample found inside the bound is a real one
        if res.get("unwind_failed") and not res["failed"]:
            raise Undecided("unwinding assertion failed (bound too small for this input space or loop renumbered): %s %s"
                            % (res["unwind_failed"][0]["id"], res["unwind_failed"][0]["loc"]))
        if res.get("unknown") and not res["failed"]:
            raise Undecided("property %s has status UNKNOWN" % res["unknown"][0]["id"])
        want = job.get("canaries", 1)
        if canaries < want:
            # a failed unwinding assertion or real failure upstream may mask the canary; only
            # complain when nothing failed (otherwise the failure is reported as such)
            if not res["failed"]:
                raise Undecided("vacuous: %d of %d canaries reachable" % (canaries, want))
        ids = [p["id"] for p in res["props"]]
        for pat in job.get("expect", []):
            if not any(re.search(pat, i) for i in ids):
                raise Undecided("expected obligation /%s/ was not generated" % pat)
        if not res["props"]:
            raise Undecided("no obligations generated")
    except Undecided as e:
        res["status"] = "undecided"
        res["why"] = str(e)
    res["wall_s"] = round(time.time() - t0, 2)
    return res


def run_jobs(jobs, root, tmp, progress=True):
    out = []
    # longest first
    order = sorted(jobs, key=lambda j: -j.get("cost", 1))
    with ThreadPoolExecutor(max_workers=NPROC) as ex:
        futs = [ex.submit(run_job, j, root, tmp) for j in order]
        for j, f in zip(order, futs):
            r = f.result()
            out.append(r)
            if progress:
                nf = len(r["failed"])
                sys.stderr.write("  [%s] %-44s %4d obligations, %d failed, %.1fs %s\n" % (
                    r["status"], r["id"], len(r["props"]), nf, r["wall_s"], r.get("why", "")[:300]))
    return out


# --------------------------------------------------------------------------- replay

def _flatten(val, path, out):
    if not isinstance(val, dict):
        return
    n = val.get("name")
    if n == "struct":
        for m in val.get("members", []):
            if m.get("name", "").startswith("$pad"):
                continue
            _flatten(m["value"], path + "." + m["name"], out)
    elif n == "union":
        m = val.get("member")
        if m:
            _flatten(m["value"], path + "." + m["name"], out)
    elif n == "array":
        for e in val.get("elements", []):
            _flatten(e["value"], "%s[%d]" % (path, e["index"]), out)
    elif n in ("integer", "boolean"):
        if "binary" in val:
            out.append((path, int(val["binary"], 2)))
        elif val.get("data") in ("true", "false"):
            out.append((path, 1 if val["data"] == "true" else 0))
    # pointers, floats: not inputs


def extract_inputs(trace):
    """last assignment to every scalar leaf of each in_* variable -> {var: [(lvalue, unsigned)]}"""
    leaves = {}
    for s in trace:
        if s.get("stepType") == "assignment" and "value" in s:
            if s.get("sourceLocation", {}).get("function", "__CPROVER").startswith("__CPROVER"):
                continue      # static initialisation, not a harness input
            lhs = re.sub(r"\[(\d+)[a-zA-Z]*\]", r"[\1]", s.get("lhs", ""))
            if re.match(r"in_\w+", lhs):
                acc = []
                _flatten(s["value"], lhs, acc)
                for lv, v in acc:
                    # union irc_inaddr: the trace lists every alternative view; only the
                    # primary member (in6) is the value that was assigned
                    if re.search(r"\.in6_(8|16|32)\[", lv):
                        continue
                    leaves[lv] = v
    flat = {}
    for lv, v in leaves.items():
        var = re.match(r"in_\w+", lv).group(0)
        flat.setdefault(var, []).append((lv, v))
    return flat


def trace_for(job, gb, wdir, prop_id):
    cmd = cbmc_cmd(job, gb, ["--json-ui", "--trace", "--property", prop_id])
    rc, txt, dt = run(cmd, wdir, job.get("timeout", 900), job.get("mem", 12))
    results, _ = parse_json_ui(txt)
    if not results:
        return None, None
    for r in results:
        if r.get("property") == prop_id and "trace" in r:
            return r["trace"], r
    return None, None


def write_inputs_header(path, harness_src, inputs):
    names = sorted(set(re.findall(r"V_IN\((in_\w+)\)", open(harness_src).read())))
    with open(path, "w") as f:
        f.write("/* generated from the verifier's counterexample */\n")
        for n in names:
            if n in inputs and inputs[n]:
                body = " ".join("%s = (__typeof__(%s))0x%xULL;" % (lv, lv, v) for lv, v in inputs[n])
            else:
                body = "memset(&%s, 0, sizeof(%s));" % (n, n)
            f.write("#define VR_SET_%s do { %s } while (0)\n" % (n, body))


def native_replay(job, root, wdir, inputs):
    """Build the same harness natively over the same real sources and run it.
    -> (outcome, output) with outcome in reproduced / not-reproduced / rejected / build-failed"""
    rp = job.get("replay")
    if rp is None:
        return "no-native-driver", ""
    hdr = os.path.join(wdir, "vr_inputs.h")
    write_inputs_header(hdr, vpath(job["harness"]), inputs)
    exe = os.path.join(wdir, "replay.exe")
    srcs = [vpath(job["harness"])] + [vpath(s) for s in rp.get("stubs", [])]
    for s in job.get("srcs", []) + rp.get("extra_srcs", []):
        s2 = vpath(s) if s.startswith(("units/", "stubs/", "harness/")) else os.path.join(root, s)
        if s2 not in srcs:
            srcs.append(s2)
    cmd = ["gcc", "-g", "-O0", "-w", "-fsanitize=address,undefined", "-fno-sanitize=shift-base", "-fno-sanitize-recover=undefined",
           "-DVERIF_NATIVE", "-DVERIF_ENTRY=" + job["entry"], "-include", hdr,
           "-I", root, "-I", os.path.join(VERIF, "include"), "-I", VERIF] \
        + [d for d in BASE_DEFS if d not in ("-D__NO_CTYPE", "-DVERIF_CBMC")] + ["-D" + d for d in job.get("defines", [])] \
        + srcs + [vpath("include/vr_main.c"), "-o", exe] + rp.get("libs", [])
    rc, txt, _ = run(cmd, wdir, 300, mem_gb=64)
    if rc:
        return "build-failed", txt[-3000:]
    env = dict(os.environ, ASAN_OPTIONS="detect_leaks=0")
    try:
        p = subprocess.run([exe], cwd=wdir, stdout=subprocess.PIPE, stderr=subprocess.STDOUT, timeout=60, env=env)
        out, rc = p.stdout.decode("utf-8", "replace"), p.returncode
    except subprocess.TimeoutExpired:
        return "reproduced", "native run did not terminate in 60 s"
    if rc == 77:
        return "rejected", out[-3000:]
    if rc != 0:
        return "reproduced", out[-3000:]
    return "not-reproduced", out[-3000:]


def file_sha(path):
    return hashlib.sha256(open(path, "rb").read()).hexdigest()[:16]
