/* spec/set_model.h - the contract of src/set.c in executable form: a sorted, doubly linked
 * list with the same disposal semantics (DESIGN section 4, "table abstraction").
 * Handler proofs replace the bodies of set_first/find/insert/remove/clear by these models
 * (trampolines in stubs/tramp_iauth.c); the real set.c is proved to behave like this sorted
 * map in the C19 jobs (every well-formed tree up to N elements).  Representation: root is
 * the element with the smallest key, prev/next thread the elements in key order, l/r unused.
 * Comparators are dispatched by identity (no function-pointer fan-out). Included after the
 * unit so that the file-static disposal callback iauth_req_cleanup can be named. */
#ifndef VERIF_SET_MODEL_H
#define VERIF_SET_MODEL_H

#ifndef SET_MODEL_MAX
#define SET_MODEL_MAX 4
#endif

static int sm_compare(struct set *set, const void *a, const void *b)
{
    if (set->compare == set_compare_int) return set_compare_int(a, b);
    if (set->compare == set_compare_voidp) return set_compare_voidp(a, b);
    if (set->compare == set_compare_charp) return set_compare_charp(a, b);
#ifdef SET_MODEL_EXTRA_CMP
    if (set->compare == SET_MODEL_EXTRA_CMP) return SET_MODEL_EXTRA_CMP(a, b);
#endif
    V_ASSERT(0, "set model: unknown comparator");
    return 0;
}

/* the disposal callback is dispatched by identity; a harness over another unit names its
 * callback with -DSET_MODEL_CLEANUP_FN=... before including this file */
#ifndef SET_MODEL_CLEANUP_FN
#define SET_MODEL_CLEANUP_FN iauth_req_cleanup
#endif
static void sm_dispose(struct set *set, struct set_node *node)
{
    if (set->cleanup == SET_MODEL_CLEANUP_FN)
        SET_MODEL_CLEANUP_FN(set_node_data(node));
#ifdef SET_MODEL_CLEANUP_FN2
    else if (set->cleanup == SET_MODEL_CLEANUP_FN2)
        SET_MODEL_CLEANUP_FN2(set_node_data(node));
#endif
    else
        V_ASSERT(set->cleanup == NULL, "set model: unknown cleanup");
    free(node);
}

struct set_node *model_set_first(struct set *set) { return set->root; }

/* first node whose key is >= datum (NULL if none); *eq tells whether it is equal */
static struct set_node *sm_lower(struct set *set, const void *datum, int *eq)
{
    struct set_node *it = set->root;
    unsigned i;
    *eq = 0;
    for (i = 0; i < SET_MODEL_MAX && it; i++) {
        int c = sm_compare(set, datum, set_node_data(it));
        if (c <= 0) { *eq = (c == 0); return it; }
        it = it->next;
    }
    V_ASSERT(it == NULL, "set model: more elements than SET_MODEL_MAX");
    return NULL;
}

void *model_set_find(struct set *set, const void *datum)
{
    int eq; struct set_node *n;
    if (!set || !set->root || !datum) return NULL;
    n = sm_lower(set, datum, &eq);
    return (n && eq) ? set_node_data(n) : NULL;
}

static void sm_unlink(struct set *set, struct set_node *n)
{
    if (n->prev) n->prev->next = n->next; else set->root = n->next;
    if (n->next) n->next->prev = n->prev;
    set->count--;
}

void model_set_insert(struct set *set, struct set_node *node)
{
    int eq; struct set_node *at = set->root ? sm_lower(set, set_node_data(node), &eq) : NULL;
    if (!set->root) eq = 0;
    node->l = node->r = NULL;
    if (at && eq) {
        /* replace the equal element: it takes the old one's place, the old one is disposed */
        node->prev = at->prev; node->next = at->next;
        if (at->prev) at->prev->next = node; else set->root = node;
        if (at->next) at->next->prev = node;
        sm_dispose(set, at);
        return;
    }
    if (at) {                       /* insert before `at` */
        node->next = at; node->prev = at->prev;
        if (at->prev) at->prev->next = node; else set->root = node;
        at->prev = node;
    } else {                        /* append */
        struct set_node *last = set->root; unsigned i;
        for (i = 0; i < SET_MODEL_MAX && last && last->next; i++) last = last->next;
        node->next = NULL; node->prev = last;
        if (last) last->next = node; else set->root = node;
    }
    set->count++;
}

int model_set_remove(struct set *set, void *datum, int no_dispose)
{
    int eq; struct set_node *n;
    if (!set || !set->root) return 0;
    n = sm_lower(set, datum, &eq);
    if (!n || !eq) return 0;
    sm_unlink(set, n);
    if (!no_dispose) sm_dispose(set, n);
    return 1;
}

void model_set_clear(struct set *set, int no_dispose)
{
    struct set_node *it, *next; unsigned i;
    if (!set) return;
    it = set->root; set->root = NULL;
    for (i = 0; i < SET_MODEL_MAX && it; i++) {
        next = it->next;
        if (!no_dispose) sm_dispose(set, it);
        it = next;
    }
    V_ASSERT(it == NULL, "set model: more elements than SET_MODEL_MAX");
    set->count = 0;
}

#endif
