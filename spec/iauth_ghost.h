/* spec/iauth_ghost.h - ghost state for the per-function proofs of the IAuth modules.
 *
 * Every proof considers ONE request `the request under consideration` (G.req) - histories
 * are covered by induction over INV (see DESIGN section 4): a harness starts from an
 * arbitrary state satisfying INV, runs one real function with its callees replaced by
 * their executable contracts (spec/iauth_model.h), and checks INV plus the step property.
 *
 * The ghost log records what the callee contracts did on behalf of the request.
 */
#ifndef VERIF_IAUTH_GHOST_H
#define VERIF_IAUTH_GHOST_H
#include "modules/iauth.h"

struct ghost {
    const struct iauth_request *req; /* the request under consideration */
    int live;                 /* it is in the table and has not been retired */
    unsigned seq;             /* event counter */

    /* messages on the server channel naming the request (all go through iauth_send) */
    unsigned msgs;            /* any message with req != NULL */
    unsigned msgs_after_retire; /* ... sent while !live  (C01: must stay 0) */
    unsigned msgs_other;      /* messages naming another request object */
    unsigned verdicts;        /* 'k', 'D' or 'R' lines */
    char verdict_kind;
    const char *verdict_a0;   /* first %s argument (reason / account / class) */
    const char *verdict_a1;   /* second %s argument (class after account) */
    unsigned softdones;       /* 'd' lines */
    unsigned challenges;      /* 'C' lines */
    const char *challenge_text;
    unsigned modes;           /* 'M' lines */
    const char *mode_text;
    unsigned usernames;       /* 'o' 'U' 'u' lines */
    char username_kind;
    const char *username_text;
    unsigned hostnames;       /* 'N' lines */
    unsigned ips;             /* 'I' lines */
    unsigned broadcasts;      /* messages with req == NULL other than X queries ('>', 'G', 'A', 'S', ...) */
    unsigned long bnum[6];    /* numeric arguments of the last broadcast message */
    const char *bfmt;         /* its format string */
    char last_kind;

    /* extension queries ('X' lines built by iauth_x_query) */
    unsigned queries;
    const char *query_server[8];
    const char *query_routing[8];
    char query_verb[8];       /* 'C'HECK, 'L'OGIN, '2' LOGIN2, 'M'ORE */
    const void *query_arg[8][6];
    char query_user[8][12];   /* content of the user-name argument at the time of the call */

    /* acceptance gate */
    unsigned gate_evals;      /* calls of iauth_check_request(req) */
    unsigned gate_seq;        /* seq of the last one */
    unsigned accepts;         /* calls of iauth_accept(req) */
    unsigned kills;           /* calls of iauth_kill / iauth_quietly_kill(req) */
    const char *kill_reason;
    unsigned retires;         /* removals of req from the table (parse_registered / disconnect) */
    unsigned pre_registered;  /* notify_pre_registered(req) calls */
    unsigned registered_cb;   /* module registered() callbacks */

    /* environment */
    unsigned timer_frees;     /* event_free() on the request's timer */
    unsigned timers_new;
    unsigned loopbreaks;
    unsigned log_warnings;
    int expired;              /* the request timeout has fired (sticky, C03) */

    /* ghost module callbacks (core handlers) */
    unsigned cb_field_change, cb_user_info, cb_password, cb_new_client, cb_disconnect;
    int cb_last_flag;
    unsigned cb_flags_seen;   /* the request's flags as the module hook saw them */
    const char *cb_password_text;
};

extern struct ghost G;

#endif
