/* spec/ghost.h - pure specification functions shared by contracts, harnesses and replays.
 * They are deliberately written from the property statements, not from the code. */
#ifndef VERIF_GHOST_H
#define VERIF_GHOST_H
#include "modules/iauth.h"

/* bit i (0 = most significant) of a 128-bit address stored in network order */
static inline int spec_addr_bit(const irc_inaddr *a, unsigned i)
{
    return (a->in6_8[i / 8] >> (7 - (i % 8))) & 1;
}

/* C13: "the mask test succeeds exactly when the leading prefix-length bits are equal" */
static inline int spec_prefix_equal(const irc_inaddr *a, const irc_inaddr *b, unsigned bits)
{
    unsigned i;
    for (i = 0; i < 128; i++)
        if (i < bits && spec_addr_bit(a, i) != spec_addr_bit(b, i))
            return 0;
    return 1;
}

static inline int spec_sign(long long x) { return x < 0 ? -1 : x > 0 ? 1 : 0; }

#endif
