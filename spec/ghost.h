/* spec/ghost.h - pure specification functions shared by contracts, harnesses and replays.
 * They are deliberately written from the property statements, not from the code. */
#ifndef VERIF_GHOST_H
#define VERIF_GHOST_H
#include "modules/iauth.h"

/* bit i (0 = most significant) of a 128-bit address stored in network order */
static inline int spec_addr_bit(const irc_inaddr *a, unsigned i)
{
    return (a->in6_8[i / 8] >> (7 - (i % 8))) & 1;
}

/* C13: "the mask test succeeds exactly when the leading prefix-length bits are equal" */
static inline int spec_prefix_equal(const irc_inaddr *a, const irc_inaddr *b, unsigned bits)
{
    unsigned i;
    for (i = 0; i < 128; i++)
        if (i < bits && spec_addr_bit(a, i) != spec_addr_bit(b, i))
            return 0;
    return 1;
}

/* C12: "IPv4-compatible addresses canonicalise to IPv4-mapped" */
static inline int spec_is_ipv4(const irc_inaddr *a)
{
    return a->in6[0] == 0 && a->in6[1] == 0 && a->in6[2] == 0 && a->in6[3] == 0 && a->in6[4] == 0
        && a->in6[6] != 0 && (a->in6[5] == 0 || a->in6[5] == 0xffff);
}
static inline void spec_canon(irc_inaddr *c, const irc_inaddr *a)
{
    unsigned i;
    for (i = 0; i < 8; i++) c->in6[i] = a->in6[i];
    if (spec_is_ipv4(a)) c->in6[5] = 0xffff;
}
static inline int spec_addr_eq(const irc_inaddr *a, const irc_inaddr *b)
{
    unsigned i;
    for (i = 0; i < 8; i++) if (a->in6[i] != b->in6[i]) return 0;
    return 1;
}

/* Reference parser for plain address text, written from RFC 4291 section 2.2 and the
 * behaviour of glibc inet_pton (stands in for "the standard library parser", which is
 * outside CBMC's reach; the native tier compares with the real inet_pton).
 * Forms: x:x:x:x:x:x:x:x, one "::" standing for >= 1 zero group, each group 1-4 hex digits,
 * or a plain dotted quad d.d.d.d (AF_INET; result stored IPv4-mapped).
 * Returns 1 and fills *out when the whole string is a valid address. */
static inline int spec_hexval(char c)
{
    if (c >= '0' && c <= '9') return c - '0';
    if (c >= 'a' && c <= 'f') return c - 'a' + 10;
    if (c >= 'A' && c <= 'F') return c - 'A' + 10;
    return -1;
}
static inline int spec_parse_addr(const char *s, unsigned maxlen, irc_inaddr *out)
{
    unsigned short g[8];
    unsigned n = 0, i = 0, k, gap = 9, digits = 0, val = 0, hascolon = 0;
    for (k = 0; k < maxlen && s[k]; k++) if (s[k] == ':') hascolon = 1;
    for (k = 0; k < 8; k++) out->in6[k] = 0;
    if (!hascolon) {
        unsigned parts = 0, ip = 0;
        val = 0; digits = 0;
        for (i = 0; i <= maxlen; i++) {
            char c = i < maxlen ? s[i] : 0;
            if (c >= '0' && c <= '9') {
                if (digits > 0 && val == 0) return 0;   /* leading zero: glibc rejects */
                val = val * 10 + (unsigned)(c - '0'); digits++;
                if (val > 255) return 0;
            } else if (c == '.' || c == 0) {
                if (digits == 0) return 0;
                ip = (ip << 8) | val; parts++; val = 0; digits = 0;
                if (c == 0) break;
                if (parts > 3) return 0;
            } else return 0;
        }
        if (parts != 4) return 0;
        out->in6_8[10] = 0xff; out->in6_8[11] = 0xff;
        out->in6_8[12] = (uint8_t)(ip >> 24); out->in6_8[13] = (uint8_t)(ip >> 16);
        out->in6_8[14] = (uint8_t)(ip >> 8); out->in6_8[15] = (uint8_t)ip;
        return 1;
    }
    if (s[0] == ':') {
        if (maxlen < 2 || s[1] != ':') return 0;
        gap = 0; i = 2;
    }
    for (;;) {
        char c = i < maxlen ? s[i] : 0;
        int h = spec_hexval(c);
        if (h >= 0) {
            if (digits == 4) return 0;
            val = (val << 4) | (unsigned)h; digits++; i++;
        } else if (c == ':') {
            if (digits == 0) return 0;                       /* ":::" or ":" after "::" */
            if (n >= 8) return 0;
            g[n++] = (unsigned short)val; val = 0; digits = 0; i++;
            c = i < maxlen ? s[i] : 0;
            if (c == ':') {
                if (gap != 9) return 0;                      /* second "::" */
                gap = n; i++;
            } else if (c == 0) return 0;                     /* trailing single colon */
        } else if (c == 0) {
            if (digits > 0) { if (n >= 8) return 0; g[n++] = (unsigned short)val; }
            else if (!(gap == n && i >= 2)) return 0;        /* empty tail is fine only right after "::" */
            break;
        } else return 0;
    }
    if (gap == 9) { if (n != 8) return 0; }
    else if (n >= 8) return 0;                               /* "::" must stand for >= 1 group */
    for (k = 0; k < 8; k++) {
        unsigned short v;
        if (gap == 9 || k < gap) v = g[k];
        else if (k < gap + (8 - n)) v = 0;
        else v = g[k - (8 - n)];
        out->in6_8[2 * k] = (uint8_t)(v >> 8); out->in6_8[2 * k + 1] = (uint8_t)v;
    }
    return 1;
}

static inline int spec_sign(long long x) { return x < 0 ? -1 : x > 0 ? 1 : 0; }

#endif
