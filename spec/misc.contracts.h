/* spec/misc.contracts.h - contracts for modules/iauth_misc.c (on re-declarations; the
 * definitions stay untouched in the repository). */
#ifndef VERIF_MISC_CONTRACTS_H
#define VERIF_MISC_CONTRACTS_H
#include "spec/ghost.h"

unsigned int irc_check_mask(const irc_inaddr *check, const irc_inaddr *mask, unsigned int bits)
__CPROVER_requires(__CPROVER_r_ok(check, sizeof(*check)) && __CPROVER_r_ok(mask, sizeof(*mask)))
__CPROVER_assigns()
__CPROVER_ensures((__CPROVER_return_value != 0) == (spec_prefix_equal(check, mask, bits) != 0))
;

#endif
