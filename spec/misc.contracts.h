/* spec/misc.contracts.h - contracts for modules/iauth_misc.c (on re-declarations; the
 * definitions stay untouched in the repository). */
#ifndef VERIF_MISC_CONTRACTS_H
#define VERIF_MISC_CONTRACTS_H
#include "spec/ghost.h"

unsigned int irc_check_mask(const irc_inaddr *check, const irc_inaddr *mask, unsigned int bits)
__CPROVER_requires(__CPROVER_r_ok(check, sizeof(*check)) && __CPROVER_r_ok(mask, sizeof(*mask)))
__CPROVER_assigns()
__CPROVER_ensures((__CPROVER_return_value != 0) == (spec_prefix_equal(check, mask, bits) != 0))
;

/* Frame-only contract of the static dotted-quad parser.  Used (by replacement) in the IPv6
 * shards of the C12 round trip, where the printed text contains no '.', so the parser is
 * called on infeasible paths only; enforced for every string of bounded length in
 * C13.pton_ip4.safety. */
static unsigned int irc_pton_ip4(const char *input, unsigned int *pbits, uint32_t *output, int allow_trailing)
__CPROVER_requires(__CPROVER_r_ok(input, 1) && __CPROVER_w_ok(output, sizeof(*output)))
__CPROVER_requires(pbits == NULL || __CPROVER_w_ok(pbits, sizeof(*pbits)))
__CPROVER_assigns(*output; pbits != NULL: *pbits)
__CPROVER_ensures(1)
;

#endif
