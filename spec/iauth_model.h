/* spec/iauth_model.h - executable contracts ("models") of the IAuth core functions and
 * the specification predicates of C01-C06, C10.  Included by a harness AFTER units/u_iauth.c,
 * so it sees the file-static state of the real modules.
 *
 * model_X(...) is the contract of the real function X in executable form: it asserts X's
 * precondition and performs exactly X's specified effect on the request and the ghost log.
 * A job that proves a caller replaces X's body by model_X (goto-instrument
 * --remove-function-body X + stubs/tramp_iauth.c); the job that proves X itself runs the real
 * body against model_X's effect (refinement check), so every model is discharged somewhere.
 */
#ifndef VERIF_IAUTH_MODEL_H
#define VERIF_IAUTH_MODEL_H
#include "spec/iauth_ghost.h"

#define RESPONDED(r)  (BITSET_GET((r)->flags, IAUTH_RESPONDED) != 0)
#define SOFT_DONE(r)  (BITSET_GET((r)->flags, IAUTH_SOFT_DONE) != 0)
#define HIDDEN_ONLY(c) (BITSET_GET((c)->modes, IAUTH_XQUERY_HIDDEN_ONLY) != 0)
#define HIDDEN_HOST(c) (BITSET_GET((c)->modes, IAUTH_XQUERY_HIDDEN_HOST) != 0)

/* ---- C02: the acceptance condition, written from the property statement -------------- */
/* "every piece of registration data the loaded modules asked for (or hurry-up)" */
static int spec_required_met(const struct iauth_request *r)
{
    return (iauth_flags.bits[0] & ~r->flags.bits[0]) == 0;
}
/* no unmet +! requirement (hard hold), not yet decided, data complete */
static int spec_gate_ready(const struct iauth_request *r)
{
    return r->holds == 0 && !RESPONDED(r) && spec_required_met(r);
}
/* "unless that client's configured request timeout has expired" - expiry is sticky */
#define EXPIRED(r) (BITSET_GET((r)->flags, IAUTH_TIMED_OUT) != 0)
/* ... and no service is still awaited (soft hold), unless the timeout has expired */
static int spec_gate_open(const struct iauth_request *r)
{
    return spec_gate_ready(r) && (r->soft_holds == 0 || EXPIRED(r));
}

/* ---- ghost recorder: contract of iauth_send -------------------------------------------- */
void model_send(struct iauth_request *req, const char *fmt, const void *a0, const void *a1)
{
    char kind = fmt[0];
    G.seq++;
    G.last_kind = kind;
    if (req == NULL) {
        G.broadcasts++;
        return;
    }
    if (req != G.req) {
        G.msgs_other++;
        return;
    }
    G.msgs++;
    if (!G.live)
        G.msgs_after_retire++;
    /* C01: after the verdict / disconnect / registration nothing names the client */
    V_ASSERT(G.live, "C01: a message naming the client is emitted after it was retired");
    switch (kind) {
    case 'k': case 'D': case 'R':
        G.verdicts++; G.verdict_kind = kind; G.verdict_a0 = a0; G.verdict_a1 = a1; break;
    case 'd': G.softdones++; break;
    case 'C': G.challenges++; G.challenge_text = a0; break;
    case 'M': G.modes++; G.mode_text = a0; break;
    case 'o': case 'U': case 'u': G.usernames++; G.username_kind = kind; G.username_text = a0; break;
    case 'N': G.hostnames++; break;
    case 'I': G.ips++; break;
    default: V_ASSERT(0, "C09: unknown client-directed message kind"); break;
    }
}

void model_send_nums(const char *fmt, const unsigned long *nums)
{
    G.bfmt = fmt;
    G.bnum[0] = nums[0]; G.bnum[1] = nums[1]; G.bnum[2] = nums[2]; G.bnum[3] = nums[3];
}

void model_x_query(const char *server, const char *routing, const char *fmt,
                          const void *a0, const void *a1, const void *a2, const void *a3, const void *a4)
{
    unsigned k = G.queries;
    G.seq++;
    G.queries++;
    if (k < 8) {
        unsigned j; const char *u = NULL;
        if (fmt[0] == 'C') u = a1;                     /* CHECK nick user ip host :real */
        else if (fmt[0] == 'L' && fmt[5] == '2') u = a2;   /* LOGIN2 ip host user pw */
        for (j = 0; j < 12; j++) G.query_user[k][j] = 0;
        if (u) for (j = 0; j < 11 && u[j]; j++) G.query_user[k][j] = u[j];
        G.query_server[k] = server;
        G.query_routing[k] = routing;
        G.query_verb[k] = fmt[0] == 'C' ? 'C' : fmt[0] == 'M' ? 'M' : fmt[5] == '2' ? '2' : 'L';
        G.query_arg[k][0] = a0; G.query_arg[k][1] = a1; G.query_arg[k][2] = a2;
        G.query_arg[k][3] = a3; G.query_arg[k][4] = a4;
    }
    /* C01: a query carries the client's routing tag - only for a live client */
    V_ASSERT(G.live, "C01: a query carrying the client's routing tag is emitted after it was retired");
}

/* ---- retirement: contract of parse_registered(req, 0) / parse_disconnect -------------- */
void model_retire(struct iauth_request *req)
{
    G.seq++;
    if (req == G.req) {
        V_ASSERT(G.live, "C01/C10: a request is retired twice");
        G.live = 0;
        G.retires++;
    }
    /* the record is released: any later use by the caller is a pointer-check failure */
    free(set_node(req));
}

void model_soft_done(struct iauth_request *req)
{
    BITSET_SET(req->flags, IAUTH_SOFT_DONE);
    model_send(req, "d", NULL, NULL);
}

/* contract of iauth_accept: requires live && !RESPONDED; one D/R verdict; retired */
void model_accept(struct iauth_request *req)
{
    V_ASSERT(!RESPONDED(req), "C01: a second verdict is attempted (accept after responded)");
    if (req == G.req) { G.accepts++; G.pre_registered++; }
    BITSET_SET(req->flags, IAUTH_RESPONDED);
    if (req->account[0] != '\0')
        model_send(req, "R", req->account, req->class[0] ? req->class : NULL);
    else
        model_send(req, "D", req->class[0] ? req->class : NULL, NULL);
    model_retire(req);
}

/* contract of iauth_kill / iauth_quietly_kill */
void model_kill(struct iauth_request *req, const char *reason)
{
    V_ASSERT(!RESPONDED(req), "C01: a second verdict is attempted (kill after responded)");
    if (req == G.req) { G.kills++; G.kill_reason = reason; }
    BITSET_SET(req->flags, IAUTH_RESPONDED);
    model_send(req, "k", reason, NULL);
    model_retire(req);
}

/* contract of iauth_check_request: THE gate (C02) evaluated now (C03) */
void model_check_request(struct iauth_request *req)
{
    G.seq++;
    if (req == G.req) {
        V_ASSERT(G.live, "C01: the gate is evaluated on a retired request (use after verdict)");
        G.gate_evals++;
        G.gate_seq = G.seq;
    }
    if (spec_gate_ready(req)) {
        if (spec_gate_open(req))
            model_accept(req);
        else if (!SOFT_DONE(req))
            model_soft_done(req);
    }
}

/* contract of notify_pre_registered: the modules' pre_registered hooks may assign a class
 * and may upgrade the user name (one 'U' line); under INV (auth_username set => GOT_IDENT)
 * they cannot re-enter the gate - proved for iauth_class_rule_check in C11.rule_check */
int nondet_int(void);
char nondet_char(void);
void model_pre_registered(struct iauth_request *req)
{
    if (req == G.req) G.pre_registered++;
    if (nondet_int()) {
        __CPROVER_havoc_slice(req->class, CLASSLEN);
        req->class[CLASSLEN] = '\0';
    }
    if (nondet_int())
        model_send(req, "U", req->cli_username, NULL);
}

void model_challenge(struct iauth_request *req, const char *text) { model_send(req, "C", text, NULL); }
void model_user_mode(struct iauth_request *req, const char *modes) { model_send(req, "M", modes, NULL); }

/* contract of iauth_trust_username / iauth_force_username */
void model_final_username(struct iauth_request *req, char kind, const char *username)
{
    char f[2];
    f[0] = kind; f[1] = 0;
    model_send(req, f, username, NULL);
    if (!BITSET_GET(req->flags, IAUTH_GOT_IDENT)) {
        BITSET_SET(req->flags, IAUTH_GOT_IDENT);
        model_check_request(req);
    }
}

#endif
