/* spec/ip4_quad_spec.h - reference reading of a plain canonical dotted quad.
 * Returns its length (7..15) and stores the address in network byte order, or 0 when the
 * text up to the first NUL is not of the form a.b.c.d with canonical decimal parts. */
#ifndef VERIF_IP4_QUAD_SPEC_H
#define VERIF_IP4_QUAD_SPEC_H
#include <stdint.h>
static inline unsigned int ip4_quad_spec(const char *s, uint32_t *out_net)
{
    unsigned int pos = 0, part, k;
    unsigned char b[4];
    for (part = 0; part < 4; part++) {
        unsigned int v = 0, nd = 0;
        for (k = 0; k < 3; k++) {
            char c = s[pos];
            if (c < '0' || c > '9') break;
            if (nd == 1 && v == 0) return 0;          /* leading zero */
            v = v * 10 + (unsigned)(c - '0'); nd++; pos++;
        }
        if (nd == 0 || v > 255) return 0;
        b[part] = (unsigned char)v;
        if (part < 3) { if (s[pos] != '.') return 0; pos++; }
    }
    if (s[pos] != '\0') return 0;
    *out_net = (uint32_t)b[0] | ((uint32_t)b[1] << 8) | ((uint32_t)b[2] << 16) | ((uint32_t)b[3] << 24);
    return pos;
}
#endif
