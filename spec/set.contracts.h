/* spec/set.contracts.h - contracts for src/set.c (on re-declarations). */
#ifndef VERIF_SET_CONTRACTS_H
#define VERIF_SET_CONTRACTS_H
#include "src/common.h"
#include <stdint.h>

/* C19 "stock comparators over their whole key domain": the result has the sign of the
 * mathematical comparison of the keys (set.h:35-41), with no undefined behaviour. */
int set_compare_int(const void *a_, const void *b_)
__CPROVER_requires(__CPROVER_r_ok(a_, sizeof(int)) && __CPROVER_r_ok(b_, sizeof(int)))
__CPROVER_assigns()
__CPROVER_ensures((__CPROVER_return_value < 0) == (*(const int *)a_ < *(const int *)b_))
__CPROVER_ensures((__CPROVER_return_value > 0) == (*(const int *)a_ > *(const int *)b_))
;

int set_compare_voidp(const void *a_, const void *b_)
__CPROVER_requires(__CPROVER_r_ok(a_, sizeof(void *)) && __CPROVER_r_ok(b_, sizeof(void *)))
__CPROVER_assigns()
__CPROVER_ensures((__CPROVER_return_value < 0) == ((uintptr_t)*(void *const *)a_ < (uintptr_t)*(void *const *)b_))
__CPROVER_ensures((__CPROVER_return_value > 0) == ((uintptr_t)*(void *const *)a_ > (uintptr_t)*(void *const *)b_))
;

int set_compare_ptr(const void *a_, const void *b_)
__CPROVER_assigns()
__CPROVER_ensures((__CPROVER_return_value < 0) == ((uintptr_t)a_ < (uintptr_t)b_))
__CPROVER_ensures((__CPROVER_return_value > 0) == ((uintptr_t)a_ > (uintptr_t)b_))
;

#endif
