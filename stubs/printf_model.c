/* stubs/printf_model.c - model of snprintf/vsnprintf for the conversions the daemon uses
 * (%d %u %x %#x %lu %s %c %%; no width/precision flags).  CBMC's own model returns an
 * unconstrained buffer, which would make every statement about line *content* vacuous.
 * Trusted (S1); cross-checked natively against libc by tools/printf_selftest.c.
 * C99 semantics: returns the length that would have been written, always terminates
 * the output when size > 0. */
#include <stdarg.h>
#include <stddef.h>

static void vp_put(char *out, size_t size, size_t *pos, char c)
{
    if (*pos + 1 < size)
        out[*pos] = c;
    (*pos)++;
}

/* digit extraction without division (dividers are what SAT back ends choke on):
 * hexadecimal by nibble shifts, decimal by comparing with / subtracting powers of ten */
static void vp_unum(char *out, size_t size, size_t *pos, unsigned long v, unsigned base)
{
    static const unsigned long p10[20] = {
        10000000000000000000ul, 1000000000000000000ul, 100000000000000000ul, 10000000000000000ul,
        1000000000000000ul, 100000000000000ul, 10000000000000ul, 1000000000000ul, 100000000000ul,
        10000000000ul, 1000000000ul, 100000000ul, 10000000ul, 1000000ul, 100000ul, 10000ul, 1000ul,
        100ul, 10ul, 1ul };
    int started = 0, i;
    if (base == 16) {
        for (i = 15; i >= 0; i--) {
            unsigned d = (unsigned)((v >> (4 * i)) & 15);
            if (d != 0 || started || i == 0) {
                vp_put(out, size, pos, (char)(d < 10 ? '0' + d : 'a' + (d - 10)));
                started = 1;
            }
        }
        return;
    }
    for (i = 0; i < 20; i++) {
        unsigned d = 0;
        while (v >= p10[i] && d < 9) { v -= p10[i]; d++; }
        if (d != 0 || started || i == 19) {
            vp_put(out, size, pos, (char)('0' + d));
            started = 1;
        }
    }
}

/* CBMC stores each variadic argument in an object of its *unpromoted* type (a short stays 2
 * bytes), while C promotes it to int: read an integer argument according to the size of the
 * object it was stored in.  Natively this is plain va_arg. */
#ifdef VERIF_NATIVE
#define VP_SINT(ap) ((long)va_arg(ap, int))
#define VP_UINT(ap) ((unsigned long)va_arg(ap, unsigned))
#else
static long vp_int_arg(void ***app, int is_unsigned)
{
    void *p = **app;
    __CPROVER_size_t n = __CPROVER_OBJECT_SIZE(p);
    (*app)++;
    if (n == 1) return is_unsigned ? (long)*(unsigned char *)p : (long)*(signed char *)p;
    if (n == 2) return is_unsigned ? (long)*(unsigned short *)p : (long)*(short *)p;
    if (n == 4) return is_unsigned ? (long)*(unsigned int *)p : (long)*(int *)p;
    return *(long *)p;
}
#define VP_SINT(ap) vp_int_arg((void ***)&(ap), 0)
#define VP_UINT(ap) ((unsigned long)vp_int_arg((void ***)&(ap), 1))
#endif

int vsnprintf(char *out, size_t size, const char *fmt, va_list ap)
{
    size_t pos = 0;
    while (*fmt) {
        char c = *fmt++;
        int alt = 0, lng = 0;
        if (c != '%') { vp_put(out, size, &pos, c); continue; }
        c = *fmt++;
        if (c == '#') { alt = 1; c = *fmt++; }
        if (c == 'l') { lng = 1; c = *fmt++; }
        switch (c) {
        case '%': vp_put(out, size, &pos, '%'); break;
        case 'c': vp_put(out, size, &pos, (char)VP_SINT(ap)); break;
        case 's': {
            const char *s = va_arg(ap, const char *);
            if (!s) s = "(null)";
            while (*s) vp_put(out, size, &pos, *s++);
            break;
        }
        case 'd': {
            long v = lng ? va_arg(ap, long) : VP_SINT(ap);
            unsigned long u = (unsigned long)v;
            if (v < 0) { vp_put(out, size, &pos, '-'); u = 0ul - u; }
            vp_unum(out, size, &pos, u, 10);
            break;
        }
        case 'u': vp_unum(out, size, &pos, lng ? va_arg(ap, unsigned long) : VP_UINT(ap), 10); break;
        case 'x': {
            unsigned long v = lng ? va_arg(ap, unsigned long) : VP_UINT(ap);
            if (alt && v != 0) { vp_put(out, size, &pos, '0'); vp_put(out, size, &pos, 'x'); }
            vp_unum(out, size, &pos, v, 16);
            break;
        }
        default:
#ifndef VERIF_NATIVE
            __CPROVER_assert(0, "printf model: conversion not modelled");
#endif
            break;
        }
    }
    if (size > 0)
        out[pos < size ? pos : size - 1] = '\0';
    return (int)pos;
}

int snprintf(char *out, size_t size, const char *fmt, ...)
{
    va_list ap;
    int r;
    va_start(ap, fmt);
    r = vsnprintf(out, size, fmt, ap);
    va_end(ap);
    return r;
}
