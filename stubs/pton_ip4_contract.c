/* stubs/pton_ip4_contract.c - executable contract of the static irc_pton_ip4() for the
 * one case the C12 round trip needs: a *plain canonical dotted quad* "a.b.c.d" (each part
 * 1-3 digits without leading zeros, value <= 255) followed by NUL.  For that text the result
 * is fully specified (length, address in network order, 32 bits); for every other text the
 * contract promises nothing (any return value, any *output / *pbits).
 * The real function is proved to satisfy exactly this contract in job C13.pton_ip4.quad
 * (harness h_pton_ip4_quad uses the same ip4_quad_spec()). */
#include <stdint.h>
#include <stddef.h>
#include "spec/ip4_quad_spec.h"

unsigned int nondet_uint(void);
uint32_t nondet_u32(void);

unsigned int irc_pton_ip4(const char *input, unsigned int *pbits, uint32_t *output, int allow_trailing)
{
    uint32_t ip;
    unsigned int len = ip4_quad_spec(input, &ip);
    (void)allow_trailing;
    if (len) {
        *output = ip;
        if (pbits) *pbits = 32;
        return len;
    }
    *output = nondet_u32();
    if (pbits) *pbits = nondet_uint();
    return nondet_uint();
}
