/* stubs/memcpy_loop.c - memcpy as a byte loop.  CBMC's built-in model copies through
 * __CPROVER_array_copy / array_replace, whose result the symbolic executor does not constant-fold:
 * text copied from a string literal would stay symbolic and every later comparison would fork.
 * Same contract (n bytes, non-overlapping), bounded by the job's unwind limit for memcpy.0. */
#include <stddef.h>
void *memcpy(void *dst, const void *src, size_t n)
{
    size_t i;
    for (i = 0; i < n; i++) ((char *)dst)[i] = ((const char *)src)[i];
    return dst;
}
