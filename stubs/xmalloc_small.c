/* stubs/xmalloc_small.c - xmalloc by contract for harnesses whose allocation sizes depend on the
 * input: "a fresh zeroed object of exactly `size` bytes".  CBMC's bit-blaster cannot handle objects
 * of symbolic size, so the size is case-split into concrete sizes 0..32 (exact, nothing is
 * over-allocated: an off-by-one write is still a bounds violation); larger requests are outside the
 * harness bound and flagged. */
#include <stdlib.h>
void *xmalloc(unsigned int size)
{
    void *p;
    switch (size) {
    case 0: p = calloc(1, 0); break;
    case 1: p = calloc(1, 1); break;
    case 2: p = calloc(1, 2); break;
    case 3: p = calloc(1, 3); break;
    case 4: p = calloc(1, 4); break;
    case 5: p = calloc(1, 5); break;
    case 6: p = calloc(1, 6); break;
    case 7: p = calloc(1, 7); break;
    case 8: p = calloc(1, 8); break;
    case 9: p = calloc(1, 9); break;
    case 10: p = calloc(1, 10); break;
    case 11: p = calloc(1, 11); break;
    case 12: p = calloc(1, 12); break;
    case 13: p = calloc(1, 13); break;
    case 14: p = calloc(1, 14); break;
    case 15: p = calloc(1, 15); break;
    case 16: p = calloc(1, 16); break;
    case 17: p = calloc(1, 17); break;
    case 18: p = calloc(1, 18); break;
    case 19: p = calloc(1, 19); break;
    case 20: p = calloc(1, 20); break;
    case 21: p = calloc(1, 21); break;
    case 22: p = calloc(1, 22); break;
    case 23: p = calloc(1, 23); break;
    case 24: p = calloc(1, 24); break;
    case 25: p = calloc(1, 25); break;
    case 26: p = calloc(1, 26); break;
    case 27: p = calloc(1, 27); break;
    case 28: p = calloc(1, 28); break;
    case 29: p = calloc(1, 29); break;
    case 30: p = calloc(1, 30); break;
    case 31: p = calloc(1, 31); break;
    case 32: p = calloc(1, 32); break;
    default:
        __CPROVER_assert(0, "xmalloc size beyond the harness bound (32)");
        p = calloc(1, 32);
        break;
    }
    __CPROVER_assume(p != NULL);
    return p;
}

