/* stubs/env_iauth.c - the daemon's environment as seen from the IAuth modules:
 * logging, libevent, configuration registry, clocks.  Contracts only (assumption S3):
 *   event_free(ev)      releases the timer; a freed event never fires
 *   event_new/add       give a fresh timer token
 *   cached time         arbitrary
 *   log_message         writes nothing to the server channel (proved for log.c in C09/C18)
 */
#include <stdarg.h>
#include <stdlib.h>
#include <time.h>
#include "spec/iauth_ghost.h"

struct ghost G;
struct event_base *ev_base;
struct evdns_base *ev_dns;
int clean_exit;
struct log_type *log_core;
const char iauthd_version[] = "verif";

int nondet_int(void);
long nondet_long(void);

void log_message(struct log_type *type, enum log_severity sev, const char *format, ...)
{
    (void)type; (void)format;
    if (sev >= LOG_WARNING)
        G.log_warnings++;
}
struct log_type *log_type_register(const char *name, const char *default_target)
{
    (void)name; (void)default_target;
    return NULL;
}
void event_free(struct event *ev)
{
    G.timer_frees++;
    free(ev);
}
struct event *event_new(struct event_base *b, evutil_socket_t fd, short what, event_callback_fn cb, void *arg)
{
    (void)b; (void)fd; (void)what; (void)cb; (void)arg;
    G.timers_new++;
    return malloc(1);
}
int event_add(struct event *ev, const struct timeval *tv) { (void)ev; (void)tv; return 0; }
int event_base_gettimeofday_cached(struct event_base *b, struct timeval *tv)
{
    (void)b;
    tv->tv_sec = nondet_long();
    __CPROVER_assume(tv->tv_sec >= 0 && tv->tv_sec < (1L << 40));        /* a sane clock */
    tv->tv_usec = 0;
    return nondet_int() ? 0 : -1;
}
int event_base_loopbreak(struct event_base *b) { (void)b; G.loopbreaks++; return 0; }
int clock_gettime(clockid_t c, struct timespec *ts)
{
    (void)c;
    ts->tv_sec = nondet_long();
    ts->tv_nsec = nondet_long();
    __CPROVER_assume(ts->tv_nsec >= 0 && ts->tv_nsec < 1000000000L && ts->tv_sec >= 0 && ts->tv_sec < 4000000000L);
    return 0;
}
/* glob matching is libc's: uninterpreted */
