/* NATIVE REPLAY ONLY: symbols the config.c harness does not reach but the linker wants */
#include "src/common.h"
struct set_node *set_lower(struct set *set, const void *datum) { (void)set; (void)datum; return 0; }
void module_close_all(void) {}
int clean_exit; struct event_base *ev_base;
