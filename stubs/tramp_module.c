/* stubs/tramp_module.c - module_get by contract in the per-phase C20 harnesses: every module named
 * in a depends/rdepends vector exists in the table, so module_get is a pure lookup there (its
 * create-if-absent path is exercised by the whole-run harness of the thorough tier) */
struct module;
struct module *model_module_get(const char *name);
struct module *module_get(const char *name) { return model_module_get(name); }
