/* stubs/tramp_module.c - trampolines for the C20 harnesses (one -DTRAMP_X per removed body).
 * module_get by contract in the per-phase harnesses: every module named in a depends/rdepends
 * vector exists in the table, so module_get is a pure lookup there (its create-if-absent path is
 * exercised by the whole-run harness).  xmalloc / xrealloc: typed allocation models stated in the
 * harness (harness/h_module.c, "allocation"). */
struct module;
#ifdef TRAMP_module_get
struct module *model_module_get(const char *name);
struct module *module_get(const char *name) { return model_module_get(name); }
#endif
#ifdef TRAMP_xmalloc
void *model_xmalloc(unsigned int size);
void *xmalloc(unsigned int size) { return model_xmalloc(size); }
#endif
#ifdef TRAMP_xrealloc
void *model_xrealloc(void *ptr, unsigned int size);
void *xrealloc(void *ptr, unsigned int size) { return model_xrealloc(ptr, size); }
#endif
