/* stubs/tramp_set.c - set.c by contract for units other than the IAuth one */
#include "src/common.h"
struct set_node *model_set_first(struct set *set);
void *model_set_find(struct set *set, const void *datum);
void model_set_insert(struct set *set, struct set_node *node);
int model_set_remove(struct set *set, void *datum, int no_dispose);
void model_set_clear(struct set *set, int no_dispose);
struct set_node *set_first(struct set *set) { return model_set_first(set); }
void *set_find(struct set *set, const void *datum) { return model_set_find(set, datum); }
void set_insert(struct set *set, struct set_node *node) { model_set_insert(set, node); }
int set_remove(struct set *set, void *datum, int no_dispose) { return model_set_remove(set, datum, no_dispose); }
void set_clear(struct set *set, int no_dispose) { model_set_clear(set, no_dispose); }
int set_compare_charp(const void *a_, const void *b_)
{
    char *const *a = a_, *const *b = b_;
    return strcasecmp(*a, *b);
}
int set_compare_int(const void *a_, const void *b_) { const int *a = a_, *b = b_; return (*a > *b) - (*a < *b); }
int set_compare_voidp(const void *a_, const void *b_) { void *const *a = a_, *const *b = b_; return (*a > *b) ? 1 : (*a == *b) ? 0 : -1; }
