/* stubs/tramp_config.c - trampolines for file-static functions of src/config.c whose bodies a
 * job replaces by recorders / contracts (see harness/h_config.c) */
struct conf_parse; struct conf_node_object; struct conf_node_base;
char *model_conf_read_file(struct conf_parse *parse, const char *filename);
void model_conf_parse_entry(struct conf_parse *parse, struct conf_node_object *parent);
int model_conf_replace_value(struct conf_node_base *t, struct conf_node_base *s);
#ifdef TRAMP_conf_read_file
char *conf_read_file(struct conf_parse *parse, const char *filename) { return model_conf_read_file(parse, filename); }
#endif
#ifdef TRAMP_conf_parse_entry
void conf_parse_entry(struct conf_parse *parse, struct conf_node_object *parent) { model_conf_parse_entry(parse, parent); }
#endif
#ifdef TRAMP_conf_replace_value
int conf_replace_value(struct conf_node_base *t, struct conf_node_base *s) { return model_conf_replace_value(t, s); }
#endif
