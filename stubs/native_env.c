/* stubs/native_env.c - NATIVE REPLAY ONLY: the few daemon-wide symbols that src/common.c
 * references, so that real translation units link without main.c/log.c/module.c. */
#include <stdarg.h>
#include <stdio.h>
#include <stdlib.h>
#include "src/common.h"
struct log_type *log_core;
int clean_exit;
struct event_base *ev_base;
void log_message(struct log_type *type, enum log_severity sev, const char *format, ...)
{
    va_list ap;
    (void)type;
    if (sev < LOG_WARNING)
        return;
    va_start(ap, format);
    fprintf(stderr, "[log %d] ", (int)sev);
    vfprintf(stderr, format, ap);
    fputc('\n', stderr);
    va_end(ap);
    if (sev == LOG_FATAL)
        _exit(3);
}
void module_close_all(void) {}
