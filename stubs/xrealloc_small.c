/* stubs/xrealloc_small.c - xrealloc by contract ("the old contents up to min(old, new), exactly
 * `size` bytes"), size case-split into the concrete sizes the harnesses can request (0..24 and the
 * multiples of 8 up to 64); anything else is outside the harness bound and flagged.  See
 * xmalloc_small.c for why. */
#include <stdlib.h>
void *xrealloc(void *ptr, unsigned int size)
{
    void *p;
    switch (size) {
    case 0: p = realloc(ptr, 0); break;
    case 1: p = realloc(ptr, 1); break;
    case 2: p = realloc(ptr, 2); break;
    case 3: p = realloc(ptr, 3); break;
    case 4: p = realloc(ptr, 4); break;
    case 5: p = realloc(ptr, 5); break;
    case 6: p = realloc(ptr, 6); break;
    case 7: p = realloc(ptr, 7); break;
    case 8: p = realloc(ptr, 8); break;
    case 9: p = realloc(ptr, 9); break;
    case 10: p = realloc(ptr, 10); break;
    case 11: p = realloc(ptr, 11); break;
    case 12: p = realloc(ptr, 12); break;
    case 13: p = realloc(ptr, 13); break;
    case 14: p = realloc(ptr, 14); break;
    case 15: p = realloc(ptr, 15); break;
    case 16: p = realloc(ptr, 16); break;
    case 17: p = realloc(ptr, 17); break;
    case 18: p = realloc(ptr, 18); break;
    case 19: p = realloc(ptr, 19); break;
    case 20: p = realloc(ptr, 20); break;
    case 21: p = realloc(ptr, 21); break;
    case 22: p = realloc(ptr, 22); break;
    case 23: p = realloc(ptr, 23); break;
    case 24: p = realloc(ptr, 24); break;
    case 32: p = realloc(ptr, 32); break;
    case 40: p = realloc(ptr, 40); break;
    case 48: p = realloc(ptr, 48); break;
    case 56: p = realloc(ptr, 56); break;
    case 64: p = realloc(ptr, 64); break;
    default:
        __CPROVER_assert(0, "xrealloc size beyond the harness bound");
        p = realloc(ptr, 64);
        break;
    }
    __CPROVER_assume(p != NULL);
    return p;
}
