/* glob matching is libc's: uninterpreted (any result) */
int nondet_int(void);
int fnmatch(const char *pattern, const char *string, int flags)
{
    (void)pattern; (void)string; (void)flags;
    return nondet_int();
}
