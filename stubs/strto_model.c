/* stubs/strto_model.c - strtol / strtoul for bases 10 and 16 as ISO C specifies them
 * (white space, optional sign, optional 0x prefix for base 16, digits; saturation on overflow).
 * CBMC 6.11 ships no strtoul model at all.  Trusted (S2), differential-tested against glibc by
 * tools/spec_selftest.c. */
#include <limits.h>
#include <stddef.h>

static int st_digit(char c, int base)
{
    int v;
    if (c >= '0' && c <= '9') v = c - '0';
    else if (c >= 'a' && c <= 'z') v = c - 'a' + 10;
    else if (c >= 'A' && c <= 'Z') v = c - 'A' + 10;
    else return -1;
    return v < base ? v : -1;
}

static unsigned long st_scan(const char *s, char **end, int base, int *neg, int *ovf, int *any)
{
    const char *p = s;
    unsigned long acc = 0;
    *neg = 0; *ovf = 0; *any = 0;
    while (*p == ' ' || (*p >= '\t' && *p <= '\r')) p++;
    if (*p == '-') { *neg = 1; p++; }
    else if (*p == '+') p++;
    if (base == 16 && p[0] == '0' && (p[1] == 'x' || p[1] == 'X') && st_digit(p[2], 16) >= 0) p += 2;
    while (st_digit(*p, base) >= 0) {
        unsigned long d = (unsigned long)st_digit(*p, base);
        if (acc > (ULONG_MAX - d) / (unsigned long)base) *ovf = 1;
        else acc = acc * (unsigned long)base + d;
        *any = 1;
        p++;
    }
    if (end) *end = (char *)(*any ? p : s);
    return acc;
}

long strtol(const char *s, char **end, int base)
{
    int neg, ovf, any;
    unsigned long v = st_scan(s, end, base, &neg, &ovf, &any);
    if (neg) {
        if (ovf || v > (unsigned long)LONG_MAX + 1ul) return LONG_MIN;
        return (long)(0ul - v);
    }
    if (ovf || v > (unsigned long)LONG_MAX) return LONG_MAX;
    return (long)v;
}

unsigned long strtoul(const char *s, char **end, int base)
{
    int neg, ovf, any;
    unsigned long v = st_scan(s, end, base, &neg, &ovf, &any);
    if (ovf) return ULONG_MAX;
    return neg ? 0ul - v : v;
}
