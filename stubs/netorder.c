/* stubs/netorder.c - byte-order functions for the x86-64 (little-endian) target that
 * goto-cc configures.  glibc only provides these as inline code when optimising, so CBMC
 * would otherwise see body-less (= nondeterministic) functions.  Assumption A2. */
#include <stdint.h>
uint16_t ntohs(uint16_t x) { return (uint16_t)((x >> 8) | (x << 8)); }
uint16_t htons(uint16_t x) { return (uint16_t)((x >> 8) | (x << 8)); }
uint32_t ntohl(uint32_t x) { return (x >> 24) | ((x >> 8) & 0xff00u) | ((x << 8) & 0xff0000u) | (x << 24); }
uint32_t htonl(uint32_t x) { return (x >> 24) | ((x >> 8) & 0xff00u) | ((x << 8) & 0xff0000u) | (x << 24); }
