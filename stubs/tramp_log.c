/* stubs/tramp_log.c - trampolines for src/log.c: the body of X is removed from the goto binary
 * (per job) and replaced by a call to its executable contract model_X() stated in harness/h_log.c.
 * log.c's types are file-local, hence the untyped pointers. */
#include <stdarg.h>
#ifdef TRAMP_log_parse_type_sevset
int model_parse_type_sevset(void **type, void *sevset, const char *name);
int log_parse_type_sevset(void **type, void *sevset, const char *name) { return model_parse_type_sevset(type, sevset, name); }
#endif
#ifdef TRAMP_log_message
void model_log_message(void *type, int sev, const char *format);
void log_message(void *type, int sev, const char *format, ...) { model_log_message(type, sev, format); }
#endif
