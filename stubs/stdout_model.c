/* stubs/stdout_model.c - the server channel: everything written to stdout is appended to a
 * ghost buffer so that proofs can speak about the bytes of each line (C09).  stdio itself is
 * trusted (S1). */
#include <stdio.h>
#define OUT_MAX 1200
char g_out[OUT_MAX];
unsigned int g_out_len;
unsigned int g_out_flushes;
unsigned int g_other_stream_writes;

int fputs(const char *s, FILE *stream)
{
    unsigned int i;
    if (stream != stdout) { g_other_stream_writes++; return 0; }
    for (i = 0; s[i] != '\0' && g_out_len < OUT_MAX; i++)
        g_out[g_out_len++] = s[i];
    return 0;
}
int fputc(int c, FILE *stream)
{
    if (stream != stdout) { g_other_stream_writes++; return c; }
    if (g_out_len < OUT_MAX) g_out[g_out_len++] = (char)c;
    return c;
}
int fflush(FILE *stream) { if (stream == stdout) g_out_flushes++; return 0; }

/* fprintf: only its target stream matters here (C09: is anything written to the server channel?) */
#include <stdarg.h>
unsigned int g_stdout_fprintf;
int fprintf(FILE *stream, const char *format, ...)
{
    (void)format;
    if (stream == stdout) g_stdout_fprintf++; else g_other_stream_writes++;
    return 0;
}
