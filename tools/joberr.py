#!/usr/bin/env python3
import json,sys,glob
for f in glob.glob(sys.argv[1]+'/cbmc.json'):
    try: d=json.load(open(f))
    except Exception as e: print("unparsable", e); continue
    for e in d:
        if isinstance(e,dict) and 'messageText' in e and e.get('messageType') in ('ERROR','WARNING') and 'non-existent' not in e['messageText'] and 'does not match any loop' not in e['messageText']: print(e['messageType'], e['messageText'][:600])
        if isinstance(e,dict) and 'result' in e:
            for r in e['result']:
                if r['status']!='SUCCESS' and 'canary' not in r['description']: print(r['property'],r['status'],r['description'][:160], r.get('sourceLocation',{}).get('file','')[-30:], r.get('sourceLocation',{}).get('line'))
