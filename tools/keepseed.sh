#!/bin/sh
# keepseed.sh <seed-dir> <property> "<needs>" "<caught-by>" : store a confirmed seeded change under /verif/seeded/
S="$1"; P="$2"; N="$3"; C="$4"; id=$(basename "$S")
D=/verif/seeded/$id; mkdir -p "$D"
cp -r "$S"/. "$D"/
python3 - "$D" "$P" "$N" "$C" <<'PY'
import json,sys
d,p,n,c=sys.argv[1:5]
json.dump({"property":p,"breaks":p,"needs_to_manifest":n,
 "confirmed_by":"tools/seedcheck.sh: scratch worktree of /repo HEAD, patch applied, make -j16 && make check pass (89/89), demo.sh exits non-zero with the patch and 0 without",
 "detected_by":c},open(d+"/meta.json","w"),indent=1)
PY
echo kept $D
