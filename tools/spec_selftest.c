/* Differential self-test of the trusted specification helpers against libc:
 *   spec_parse_addr  vs inet_pton(AF_INET6 / AF_INET)
 *   printf model     vs libc snprintf
 * build: gcc -I/repo -I/verif -DVERIF_NATIVE tools/spec_selftest.c -o /tmp/x && /tmp/x */
#include <arpa/inet.h>
#include <stdio.h>
#include <stdlib.h>
#include <string.h>
#include "spec/ghost.h"
int model_snprintf(char *out, size_t size, const char *fmt, ...);
long model_strtol(const char *s, char **end, int base);
unsigned long model_strtoul(const char *s, char **end, int base);
static unsigned long rs = 88172645463325252ul;
static unsigned rnd(void) { rs ^= rs << 13; rs ^= rs >> 7; rs ^= rs << 17; return (unsigned)(rs >> 11); }
static int check(const char *s)
{
    irc_inaddr a; unsigned char ref[16]; int r, q;
    r = spec_parse_addr(s, 64, &a);
    if (strchr(s, ':')) q = inet_pton(AF_INET6, s, ref) == 1;
    else { unsigned char v4[4]; q = inet_pton(AF_INET, s, v4) == 1; memset(ref, 0, 16); ref[10] = ref[11] = 0xff; memcpy(ref + 12, v4, 4); }
    /* embedded dotted quads in IPv6 text are outside the reference parser's grammar */
    if (strchr(s, ':') && strchr(s, '.')) return 0;
    if (r != q || (r && memcmp(ref, a.in6_8, 16))) { printf("MISMATCH '%s' spec=%d libc=%d\n", s, r, q); return 1; }
    return 0;
}
int main(void)
{
    static const char alpha[] = "0123456789abcdefABCDEF::::..xg/ ";
    static const char *fixed[] = { "::", "::1", "1::", "1::2", "1:2:3:4:5:6:7:8", "1:2:3:4:5:6:7::", "::2:3:4:5:6:7:8", "0::1:1:1:1:1:1:1",
        "1:2:3:4:5:6:7", ":1", "1:", "1:::2", "::1::", "12345::", "1.2.3.4", "1.2.3", "01.2.3.4", "256.1.1.1", "1.2.3.4.5", "", ":", ":::", "1::2::3",
        "a:b:c:d:e:f:0:1", "::ffff:1:2", "0:0:0:0:0:0:0:0", "1:2:3:4:5:6:7:8:9", "::1:2:3:4:5:6:7:8", "1:2:3:4::5:6:7:8", "00001::", "g::", "1::g" };
    unsigned bad = 0, i, n;
    for (i = 0; i < sizeof(fixed) / sizeof(fixed[0]); i++) bad += check(fixed[i]);
    for (n = 0; n < 3000000; n++) {
        char s[48]; unsigned len = rnd() % 40, k;
        if (n & 1) {   /* grammar-ish: groups and colons */
            unsigned p = 0, g = 1 + rnd() % 9;
            for (k = 0; k < g && p < 40; k++) {
                unsigned d = rnd() % 5, j;
                for (j = 0; j < d; j++) s[p++] = "0123456789abcdef"[rnd() % 16];
                if (k + 1 < g || rnd() % 4 == 0) s[p++] = ':';
                if (rnd() % 6 == 0) s[p++] = ':';
            }
            s[p] = 0;
        } else {
            for (k = 0; k < len; k++) s[k] = alpha[rnd() % (sizeof(alpha) - 1)];
            s[len] = 0;
        }
        bad += check(s);
        if (bad > 10) break;
    }
    for (n = 0; n < 200000; n++) {
        char a[64], b[64]; unsigned u = rnd() * (rnd() % 3 ? 1 : 65537u), sz = 1 + rnd() % 40; int d = (int)rnd() - (int)rnd();
        unsigned long lu = ((unsigned long)rnd() << 32) | rnd();
        int x = model_snprintf(a, sz, "k %d %u %x_%x %#x %lu %s %c %%", d, u, u, (unsigned)d, u % 3 ? u : 0, lu, "str", 'z');
        int y = snprintf(b, sz, "k %d %u %x_%x %#x %lu %s %c %%", d, u, u, (unsigned)d, u % 3 ? u : 0, lu, "str", 'z');
        if (x != y || strcmp(a, b)) { printf("PRINTF MISMATCH '%s' vs '%s' (%d,%d)\n", a, b, x, y); bad++; break; }
    }
    for (n = 0; n < 2000000; n++) {
        static const char al[] = "0123456789abcdefxXF -+_g\t";
        char t[28], *e1, *e2; unsigned len = rnd() % 26, k; int base = (n & 1) ? 16 : 10;
        for (k = 0; k < len; k++) t[k] = al[rnd() % (sizeof(al) - 1)];
        t[len] = 0;
        if (model_strtol(t, &e1, base) != strtol(t, &e2, base) || e1 != e2) { printf("STRTOL MISMATCH '%s' base %d\n", t, base); bad++; break; }
        if (model_strtoul(t, &e1, base) != strtoul(t, &e2, base) || e1 != e2) { printf("STRTOUL MISMATCH '%s' base %d\n", t, base); bad++; break; }
    }
    printf(bad ? "spec selftest FAILED\n" : "spec selftest ok\n");
    return bad != 0;
}
