#!/bin/sh
# seedtrial.sh <seed-id> <property> [tier] : run the property's check against a seeded change in a
# scratch worktree (VERIF_REPO), never touching /repo.  Prints the verdict lines.
S=/verif/seeded/$1; [ -d "$S" ] || S=/tmp/seedout/$1
P=$2; T=${3:-quick}
W=$(mktemp -d /tmp/seedtrial-XXXXXX); rmdir $W
git -C /repo worktree add -q $W HEAD || exit 2
cp /repo/autoconf.h $W/
if ! git -C $W apply "$S/patch.diff"; then echo "$1: PATCH DOES NOT APPLY to HEAD"; git -C /repo worktree remove --force $W; exit 2; fi
cd /verif && VERIF_REPO=$W ./vcheck $P --tier $T 2>/dev/null | grep -E "VIOLATION|KNOWN|UNDECIDED|^failed obl|^C[0-9]+:" | cut -c1-260 | sed "s/^/$1: /"
git -C /repo worktree remove --force $W; git -C /repo worktree prune
