#!/bin/sh
# seedcheck.sh <seed-dir> : confirm a seeded change independently in a scratch worktree:
#   builds, passes the test suite, its demo fails with the change and passes without it.
# Then run the registered checks of the property against it in /repo (apply, run, undo).
# usage: seedcheck.sh /tmp/seedout/C19-a [C19]
set -u
S="$1"; P="${2:-}"
W=$(mktemp -d /tmp/seedwt-XXXXXX); rmdir "$W"
/verif/tools/mkwt.sh "$W" >/dev/null
cd "$W" && ./configure -q >/dev/null 2>&1 && make -j16 >/dev/null 2>&1
sh "$S/demo.sh" "$W" >/tmp/seedcheck-clean.log 2>&1; rc_clean=$?
git apply "$S/patch.diff" || { echo "PATCH DOES NOT APPLY"; git -C /repo worktree remove --force "$W"; exit 2; }
make -j16 >/tmp/seedcheck-build.log 2>&1; rc_build=$?
make check >/tmp/seedcheck-test.log 2>&1; rc_test=$?
pass=$(grep -E '^# PASS:' /tmp/seedcheck-test.log | head -1)
sh "$S/demo.sh" "$W" >/tmp/seedcheck-mut.log 2>&1; rc_mut=$?
echo "seed $S: build=$rc_build tests=$rc_test ($pass) demo_clean=$rc_clean demo_mutated=$rc_mut"
cd /; git -C /repo worktree remove --force "$W"; git -C /repo worktree prune
if [ -n "$P" ]; then
  git -C /repo apply "$S/patch.diff" || exit 2
  (cd /verif && ./vcheck "$P" --tier "${TIER:-quick}" 2>/dev/null | grep -E "VIOLATION|KNOWN|UNDECIDED|^C[0-9]+:" ); echo "vcheck rc=$?"
  git -C /repo checkout -- .
fi
