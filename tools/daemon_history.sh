#!/bin/sh
# daemon_history.sh <built tree> <dir with conf.in + history.txt> : feed a protocol history to the
# real daemon (lines "@sleep N" pause), print its output.  conf.in may use @MODS@ for the module dir.
T="$1"; H="$2"; D=$(mktemp -d)
sed "s|@MODS@|$T/modules/.libs|" "$H/conf.in" > $D/conf
( while IFS= read -r l; do case "$l" in "@sleep "*) sleep "${l#@sleep }";; *) printf '%s\n' "$l"; sleep 0.15;; esac; done < "$H/history.txt"; sleep 0.4 ) \
  | "$T/src/iauthd-c" -n -f $D/conf 2>/dev/null
rm -rf $D
