#!/bin/sh
# mkwt.sh <dir> : scratch git worktree of /repo HEAD, made buildable offline
# (the generated autotools files are untracked in /repo, so they are copied over).
# Build/test there with:  ./configure -q && make -j16 && make check
set -e
d="$1"; [ -n "$d" ] || { echo "usage: mkwt.sh <dir>" >&2; exit 2; }
git -C /repo worktree add -q "$d" HEAD
cp /repo/configure /repo/Makefile.in /repo/aclocal.m4 /repo/autoconf.h.in "$d"/
mkdir -p "$d/autoconf"; cp -r /repo/autoconf/. "$d/autoconf/"
echo "$d ready"
