#!/usr/bin/env python3-vt
import json, sys, glob, jsonschema
jsonschema.validate(json.load(open('/verif/MANIFEST.json')), json.load(open('/root/.vp/MANIFEST.schema.json')))
S = json.load(open('/root/.vp/EVIDENCE.schema.json'))
for f in sorted(glob.glob('/verif/evidence/C*.json')):
    jsonschema.validate(json.load(open(f)), S)
print("manifest + %d evidence files valid" % len(glob.glob('/verif/evidence/C*.json')))
