#!/usr/bin/env python3
"""tools/mkseedmeta.py - write seeded/<id>/meta.json for every seeded change from the table below
(the table is maintained by hand from the trial logs; DESIGN 10.4 is the prose version)."""
import json, os
ROOT = os.path.dirname(os.path.dirname(os.path.abspath(__file__)))
CONFIRM = ("tools/seedcheck.sh: scratch worktree of /repo HEAD, patch applied, make -j16 && make check pass (89/89), "
           "the seed author's demonstration fails with the patch and passes without")
TRIAL = "tools/seedtrial.sh %s %s (scratch worktree via VERIF_REPO, /repo untouched)"
T = {
 # id: (needs_to_manifest, detected_by or None, note)
 "C01-a": ("a hurry-up ('H') for a client that was already sent soft-done: the flag is cleared and a second 'd' goes out", "C01.parse_hurry_up: request flags only grow / at most one soft-done", "caught"),
 "C01-b": ("a verdict the daemon reaches itself (kill or accept): the request is no longer removed from the table, so later lines for the id are still answered", "C01.parse_registered / C01.accept / C01.kill: the id is unknown afterwards", "caught"),
 "C02-a": ("a client with a hard hold that has already been sent soft-done: the gate's fast path accepts it", "C02.check_request: gate == spec_gate_open", "caught (seed re-based onto the IAUTH_TIMED_OUT fix, see REBASED.txt)"),
 "C02-b": ("a service asked twice (AGAIN / password retry): refs and soft holds are only taken the first time", "C02.xq_check.*: per-service counters and INV after the query builder", "caught"),
 "C03-a": ("a reply from a service the client does not await", "C03.xq_x_reply: a non-awaited reply is silent and changes nothing", "caught"),
 "C03-b": ("the request timeout fires before soft-done was sent: the expiry is lost", "C03.timeout: expiry is recorded and the gate re-evaluated", "caught (seed re-based, see REBASED.txt)"),
 "C04-a": ("the same id re-announced from the same address and port: the serial repeats", "C04.serial_fresh: two announcements get different serials", "first trial undecided (the harness named the removed variable); harness made independent of it and strengthened"),
 "C04-b": ("an unlinked notice for a service the client was once sent to (sent_mask) but no longer awaits (ref_mask): it is applied again", "C04.xq_x_reply", "caught"),
 "C05-a": ("an account stamp of exactly ACCOUNTLEN bytes: the last byte is dropped", "C05.xq_x_reply.reply71 (72-byte replies): the account stamp is the one the login service vouched", "first trial missed (quick tier bounded replies to 39 bytes), second undecided (no unwind bound for the strchr/strlcpy the seed introduces); job moved into the quick tier with bounds, then caught"),
 "C05-b": ("a second OK for a client that already has a stamp: +x mode is not sent", "C05.xq_x_reply: mode line per reply kind", "caught"),
 "C06-a": ("a claimed user name of 10 bytes without ident: 11 bytes are sent", "C06.xq_check.*: user name content within USERLEN", "caught"),
 "C06-b": ("a blank ident: the flag promotion happens after the modules were told", "C06.parse_user_info: the hooks' view of the flags (cb_flags_seen)", "first trial missed; strengthened, then caught"),
 "C07-a": ("two clients awaiting the same service: a reply for one is applied because the service still has references", "C07.xq_x_reply: awaiting is per client", "caught"),
 "C07-b": ("an unknown id followed by a valid line in the same read: the rest of the buffer is dropped", "C07.read_two_lines / C08.read_two_lines", "first trial missed; job added, then caught"),
 "C08-a": ("an argument that makes the formatted line longer than the buffer: fwrite reads past it", "C08.send_overlong / C09.send_overlong (1100-byte argument)", "first trial missed; job added"),
 "C08-b": ("many lines in one read: a per-callback budget leaves the rest unprocessed until more input arrives", None, "not caught: progress across event-loop callbacks is outside a contract on iauth_read (DESIGN section 8, S3)"),
 "C09-a": ("a warning while no log destination is configured: echoed to stdout, i.e. into the protocol stream", "C09.log_message: stdout only in debug mode", "caught"),
 "C09-b": ("an address whose first group is zero next to the compressed run: printed as '::1...' style text beginning with ':'", "C09.addr_text.* (printer shards: the text never begins with ':'); native replay reproduced", "first trial missed; shards added under C09, then caught"),
 "C10-a": ("a request whose timer has already fired (no longer pending) is retired: the event object is never freed", "C10.parse_registered / parse_disconnect / parse_new_client: the timer is released exactly once", "caught"),
 "C10-b": ("statistics: 'in use' derived from allocation counters instead of the table size", "C10.collect_stats: the reported count is the table size", "first trial missed; strengthened, then caught"),
 "C11-a": ("a rule with xreply_ok while the query is still pending: counts as OK", "C11.rule_check.*: xreply_ok criterion holds only for a positive answer", "caught"),
 "C11-b": ("two clients with stamped accounts: the stripped account is taken from a stale static buffer", "C11.rule_check.*: the account glob sees this client's account", "caught"),
 "C12-a": ("IPv4-compatible test ignores group 4: addresses such as 0:0:0:0:1:ffff:a.b.c.d print as dotted quad", "C12.roundtrip.zp0f / zp8f; native replay reproduced", "caught"),
 "C12-b": ("'::' expansion with overlapping forward copy", "C12.roundtrip: 7 shards; native replay reproduced", "caught"),
 "C13-a": ("mask check takes an IPv4 fast path on the low 32 bits", "C13.check_mask (DFCC-enforced contract); native replay reproduced", "caught"),
 "C13-b": ("parser's '::' expansion copies forward over itself", "C13.pton_plain.* / C13.pton_cidr.*; native replay reproduced", "first trial missed (no parser jobs under C13); jobs added, then caught"),
 "C14-a": ("a file whose last entry lacks its terminator: the load reports an error but merges anyway", "C14.conf_read: on any error code nothing is merged and no hook runs, for an arbitrary parser state", "first trial missed; strengthened (havoc of struct conf_parse on the error return), then caught"),
 "C14-b": ("a quoted string whose last byte before the end of the buffer is a backslash: the scan steps over the terminating NUL", "C14.parse_string.len8: the cursor stays inside the file buffer (never past the terminator)", "first trials timed out under load / were undecided (the unwinding assertion of the runaway loop masked the failed obligation); driver corrected, then caught"),
 "C15-a": ("a string list that shrinks to a prefix of its old value keeps the old value", "C15.string_list.len3", "caught"),
 "C15-b": ("an object that disappears from the file: 'present' is updated before the object case reads it, so its hook does not run", None, "not caught: needs conf_replace_value on object nodes, which does not get through symbolic execution (DESIGN 10.6)"),
 "C16-a": ("a string-list key written twice where the later value is a strict prefix of the earlier one (or empty): the earlier value survives", "C16.string_list.len3, C16.entry_template.t04/t06", "caught"),
 "C16-b": ("an unparsable typed value is stored anyway", "C16.string_value.len7", "caught"),
 "C17-a": ("a service dropped by a reload while clients still await it: it is still queried for new clients", "C17.xq_check.t00..t33 (same jobs as C06.xq_check: a query goes only to a configured, due service)", "first trial missed (jobs were filed under C06 only); filed under C17 too"),
 "C17-b": ("a rule with xreply_ok naming a service that is not (yet) in the service table when the rule section's hook runs: the rule is left out", "C17.class_conf_changed.*: the compiled vector is exactly the section's rule objects", "first trial missed (rule compilation was not under contract); harness added"),
 "C18-a": ("a severity list such as '<=warning,debug': the operator is not reset between items", "C18.log_sevset.quick.part1", "caught"),
 "C18-b": ('an in-place edit of a destination below the logs section: the per-entry hook was removed, so nothing rescans', 'C18.log_rescan.case0..4: every entry of the section carries a change hook; an in-place edit run through it re-routes', 'first trial missed (log_rescan_conf was not under contract); harness added, then caught by all 5 jobs'),
 "C20-a": ('a dependency cycle between modules is accepted (the loop test of the post-init walk no longer aborts)', 'C20.run.M3.g*.list0 for every cyclic graph: a genuine dependency cycle makes start-up fail', 'caught (seed re-based onto the F14 fix, see REBASED.txt; C20 was not claimed at the first trial)'),
 "C20-b": ('four modules: a chain x -> y -> z plus an unrelated module that sorts after x: the unload rounds stop sweeping early and the rest is removed in table order', 'C20.run.M4.chain_plus_one.2103: every module is unloaded at shutdown / destructor order', 'first trial missed (3-module graphs only); 4-module families added, then caught'),
}
for sid, (needs, det, note) in sorted(T.items()):
    d = os.path.join(ROOT, "seeded", sid)
    if not os.path.isdir(d):
        print("missing", sid); continue
    prop = sid.split("-")[0]
    meta = dict(property=prop, breaks=prop, needs_to_manifest=needs, confirmed_by=CONFIRM,
                trial=TRIAL % (sid, prop), detected_by=det if det else "none", result=note,
                files=sorted(f for f in os.listdir(d) if f != "meta.json"))
    json.dump(meta, open(os.path.join(d, "meta.json"), "w"), indent=1); open(os.path.join(d, "meta.json"), "a").write("\n")
print("wrote", len(T), "meta files (C19-a/b keep their hand-written ones)" )
