#!/usr/bin/env python3
"""Regenerate MANIFEST.json from obligations.PROPS (claimed properties) and manifest_text.py."""
import json, os, sys
V = os.path.dirname(os.path.dirname(os.path.abspath(__file__)))
sys.path.insert(0, V)
import obligations as OB
import manifest_text as MT

ids = [json.loads(l)["id"] for l in open(os.path.join(V, "properties.jsonl"))]
checks, na = [], []
for p in ids:
    if p in OB.PROPS and p in MT.CLAIMS:
        c = MT.CLAIMS[p]
        checks.append({
            "property_id": p,
            "quick_cmd": "./vcheck %s --tier quick" % p,
            "thorough_cmd": "./vcheck %s --tier thorough" % p,
            "evidence_file": "/verif/evidence/%s.json" % p,
            "replay_cmd_template": "./vcheck --replay {path}",
            "engine": "cbmc-contracts",
            "level_claimed": {"category": OB.PROPS[p]["level"], "text": c["text"], "design_ref": c["design_ref"]},
            "level_note": c["note"],
            "technique": c["technique"],
        })
    else:
        na.append({"property_id": p, "reason": MT.NOT_CLAIMED.get(p, "no check built yet in this round; see DESIGN.md §5 for the planned contracts")})
m = {
    "version": 1,
    "setup_cmd": "./setup.sh",
    "hooks": {"guard": "UNDERNETIRC_IAUTHD_C_VERIF",
              "enable": "none needed: contracts sit on re-declarations under /verif/spec and loop contracts are injected into a scratch copy of the sources on every run; /repo is compiled unmodified by goto-cc",
              "baseline_off_cmd": "cd /repo && make check",
              "source_commits": [], "add_only": True},
    "engines": [{"name": "cbmc-contracts", "path": "/verif/vcheck", "serves_properties": [c["property_id"] for c in checks],
                 "kind_free_text": "CBMC 6.11 code contracts (goto-instrument --dfcc: enforce on the function under proof, replace at call sites, injected loop contracts) over the real /repo translation units; SAT (minisat/kissat) and cvc5 back ends; native ASan/UBSan replay of counterexamples"}],
    "checks": checks,
    "not_applicable": na,
    "notes": MT.NOTES,
}
json.dump(m, open(os.path.join(V, "MANIFEST.json"), "w"), indent=1)
print("MANIFEST.json: %d checks, %d not claimed" % (len(checks), len(na)))
