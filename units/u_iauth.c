/* units/u_iauth.c - verification translation unit for the IAuth core and the two stock
 * decision modules: the three real files are included verbatim (found in the staged copy
 * of /repo through -I).  Only the file-scope names that clash between them are renamed;
 * nothing is dropped. */
#include "modules/iauth_core.c"

#define stats xq_stats
#define conf xq_conf
#define module_constructor xq_module_constructor
#define module_destructor xq_module_destructor
#include "modules/iauth_xquery.c"
#undef stats
#undef conf
#undef module_constructor
#undef module_destructor

#define conf cl_conf
#define module_constructor cl_module_constructor
#define module_destructor cl_module_destructor
#include "modules/iauth_class.c"
#undef conf
#undef module_constructor
#undef module_destructor
